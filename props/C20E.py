N = {"quick": 400, "thorough": 4000}
EXHAUSTIVE = {"quick": False, "thorough": True}
RULE = ("each case = one real System on a current-thread tokio runtime with a paused clock: real SystemBuilder::build (engine state, engine, feed mode iter / stream, "
        "initial trading state) + real SystemBuild::init (feed channel, forwarders, engine runner) over 1-3 spot instruments on ONE exchange whose execution side is the real "
        "ExecutionBuilder (add_live::<MockExecution<_>>: instrument map, request channel, ExecutionManager::init / run, account-stream forwarder) and a real MockExchange::run "
        "task (latency 0 / 50 / 200 ms of virtual time, fees 0 / 1 % / 10 %, initial balances chosen so that part of the orders is rejected); a never-ending market stream owned "
        "by the harness; 1-5 (thorough 1-8) segments of 0-3 ops out of {mkt (1-3 trades, half of them asking the strategy for a market order), call open (1-2 requests buy / sell, "
        "quantities 0.5 / 1 / 2 / 20, 75 % fresh client order ids, else re-used ones), call cancel (70 % naming a recent open request), call close <filter>, call cancel_orders "
        "<filter>, call trading on|off}, closed by `settle`, `settle settle`, `sleep 10|50|100|250` or nothing; 40 % of the cases send one more request right before the handle is "
        "given up; the case ends with shutdown (55 %) or abort. EVERY settle / sleep / shutdown / abort observes, at quiescence of the current virtual time: the events processed "
        "since the last observation, the engine's view (orders, full position record, price, balances, trading state: the recorded feed replayed through a fresh real Engine; the "
        "final block checks that replay against the engine shutdown() hands back) AND the exchange's own view (fetch_balances + fetch_trades through a second real MockExecution "
        "client on the same exchange), whether the two agree, then lets `latency` ms pass (settle / sleep) or gives the handle up without letting time pass (shutdown / abort: "
        "answers still inside the exchange's latency sleep are lost - C20 finding F11 - in about a fifth of the cases). 45 % of the cases contain no close_positions / cancel_orders command, so that "
        "the ops-level specification states its keys for every block of the case (measured on the quick run: independent keys in 74 % of the observation blocks, the quiescence keys in 57 %; "
        "before this generator mode 57 % / 44 %). The committed corpus (corpus/C20E/review_b.ops) holds the reviewer's hand cases: zero / negative quantities, 100 % and 200 % fees, duplicate and "
        "re-used client order ids, zero balances, a flip on three instruments, and the inputs outside the guard PosOps on which the real engine task PANICS (a position entered at price 0 exits; a "
        "zero-quantity position is touched again): harness and model print `panic` there and the case ends. An INPUT-DOMAIN family (cases d<n>, one per 8 random cases, own PRNG stream; corpus/C20E/dom_rebate_exactfit.ops holds hand cases) draws what the random cases never do: NEGATIVE fees "
        "(maker rebates -1 % / -10 % / -50 %: fees_percent is a signed Decimal; the ops-level spec is silent there, the correspondence is not), fees of 0.5 % and 100 %, quote balances 0 / 99 / 100 / 101 / 250.5 / 2e12 and base balances "
        "0 / 0.5 / 1 / 2 / 20 (exact fits: 1 @ 100 costs 99 at -1 %, 100 without fees, 101 at 1 %), prices 0.5 / 99.99 / 1e-4 / 1e12 and quantities 3 / 0.125 / 1e-8 (every product within 28 digits), latencies 1 / 500 ms "
        "(below the 1 s request timeout of the execution manager, which the composed model does not have), up to three open and two cancel requests per call, a third of the cancel requests with an exchange order id. "
        "A CONFIGURATION-SHAPE family (cases cfg<n>, one per 8 random cases, own PRNG stream; hand cases in corpus/C20E/cfg_tracked_first.ops): the engine also TRACKS an exchange that is not traded "
        "(9th token of `sys`; one spot instrument whose exchange name `I0` and asset names `b0` / `q` are those of the mocked exchange's first instrument; no execution link, no op names it): 65 % ExchangeId::Simulated, "
        "which sorts BEFORE Mock (MultiExchangeTxMap = [None, Some]; the mocked exchange is ExchangeIndex(1), its instruments and assets follow the other's - in every other case it is index 0 and alone), 35 % "
        "ExchangeId::BinanceSpot, which sorts after it (the same-named assets / instrument are the LAST entries of the tables). Model and ops-level spec have no such exchange: the real system must behave as without it. "
        "Thorough additionally enumerates every op sequence of length <= 3 "
        "over 8 symbols (strategy order, trading on, accepted buy, accepted sell, rejected buy, close positions, settle, sleep 50) for (latency 0, no fees) and (latency 50, 1 % "
        "fees) (1 170 cases). A case is distinct by the SHA-1 of its op lines and non-trivial when the implementation's observation blocks differ")
ASSUMPTIONS = [
    "the client's clock strictly increases from one exchange request to the next (hypothesis StrictClock of the balance theorems; the harness's engine clock is a strictly "
    "increasing counter shared with the execution client). With a clock that can repeat a value (LiveClock at coarse resolution, HistoricalClock between market events) two "
    "balance snapshots of one asset can carry the same exchange time; delivered out of order the `<=` guard of AssetState::update_from_balance then keeps the older one - not "
    "exhibited here, stated as the hypothesis",
    "execution manager, client, exchange task and latency sleeps are ONE step of the model (`respond`) whose outputs may reach the feed in any order: that the execution side produces "
    "exactly one response per request, carrying the exchange's verdict, therefore holds BY CONSTRUCTION of that step; that the summary is legitimate is what C07 (exactly one answer per "
    "request), C08C (the answer is the exchange's answer to that very request) and C04 / C04M (keys survive the index / name translation) prove over THEIR OWN transition systems; Props/C20E "
    "re-exports them (mock_client_echoes, response_is_managers_event, manager_answers_exactly_once, client_returns_exchange_verdict) but there is NO simulation lemma tying those systems to the "
    "composed system's respond step - the tie is the correspondence run, in which the real ExecutionManager, MockExecution client and MockExchange task sit between engine and ledger",
    "block discipline (the reading of the op lines as a SCRIPT by the ops-level specification): the handle calls made since the last await reach the engine first, in call order (synchronous "
    "sends), then the market items pushed, in order (the forwarder needs a task switch); every settle / sleep ends with every request answered (the observer lets `latency` ms pass); at an "
    "observation the exchange has processed every request sent so far, the engine has heard the answers to the requests of earlier blocks and - at latency 0 - of this block; cancel requests are "
    "answered at once. The `h` / `m` lines of the spec check the first part on every block; the rest is checked by the keys themselves",
    "input guard PosOps: every open request and every market item carries a positive price, every quantity asked for (open requests, strategy reactions) is positive - DERIVED for the whole run, "
    "the strategy's and close_positions' own requests included (posOps_requests_positive), so that PosReq is no longer an undischarged hypothesis; outside the guard the real engine task panics "
    "(0/0 in approximate_remaining_exit_fees, position.rs:517-523, when a position opened by a zero-quantity fill is touched again; 0/(0*q) in calculate_pnl_return, position.rs:549-555, when a "
    "position entered at price 0 exits): modelled as TradingLoop.tickPanics, printed as `panic` by harness and model (corpus), excluded under the guard by posOps_no_panic. Negative quantities: "
    "impl = model (Decimal::abs), the ops-level spec is silent",
    "the exchange is addressed by ENGINE indices (instrument i = the engine's instrument i, asset a = the engine's asset a): the `engine view` MockInstruments.specCfg of C04M; "
    "that the name-level MockExchange behind the ExecutionInstrumentMap shows exactly this view is Props.C04M.engine_view_refinement (names injective per exchange, a balance "
    "configured for exactly the exchange's assets); the harness translates labels <-> indices",
    "one exchange, every request addresses an instrument of that exchange (a request for an instrument the mock exchange does not list makes the ExecutionManager task panic: "
    "C04 route_foreign_instrument_rejected; C20S models that death; not exercised here); open requests are market orders; engine built without orders "
    "and without seeded balances (Fresh)",
    "set-up shapes FIXED by the harness (configuration-shape audit): ONE traded exchange (plus, in the cfg family, one tracked-but-not-traded exchange that nothing addresses: no market item, no request, "
    "no filter names it); audit mode never set (default: Disabled - the audit runners with a mocked exchange are C20S's); builder calls feed, trading in that order; SystemBuilder::balances() never called "
    "(engine starts Fresh); add_live::<MockExecution> with hand-made channels (add_mock's private wiring is C20S's / C20's); spot instruments; SystemBuild::init() on the paused current-thread runtime",
    "number range: exact rationals; Decimal overflow (1e15 x 1e15: the mock exchange task dies, `res joinerr 1`) and the Decimal rounding of a negative fee are outside the models and the generator",
    "the harness creates the request / event channels of the mock exchange itself (ExecutionBuilder::add_mock creates them privately) so that a second real MockExecution client "
    "can query the very same exchange: it calls the real SystemBuilder::build with an empty execution list, builds the execution side with the real ExecutionBuilder::add_live::"
    "<MockExecution<_>> + a real MockExchange::new(..).run() future over the instrument table generate_mock_exchange_instruments would derive (written out by hand: that function "
    "is private; sub-check C04M is about it), and puts execution_tx_map / account_channel / futures into the public fields of the SystemBuild before the real init(); "
    "instruments live on ExchangeId::Mock (= MockExecution::EXCHANGE)",
    "current-thread tokio runtime with a paused clock; virtual time moves only in `sleep` ops and by `latency` after every settle / sleep observation (the answers to the "
    "observer's queries need it); the observer's queries consume clock ticks and exchange requests of their own (they change nothing but time stamps)",
    "the engine's view at an observation is the recorded feed replayed through a fresh real Engine (C20S engine_is_fold is the theorem, the final `own` line the check); "
    "the ORDER in which one segment's account events reach the engine is the scheduler's: they are compared as a sorted multiset (C20S account_order_irrelevant)",
    "EngineFeedMode::Iterator runs the engine on a real blocking thread: the harness synchronises with it only through the processed-event count (as C20S)",
    "exact rationals for Decimal: price_entry_average, pnl_realised and the fee split of a flipping fill go through Decimal division and are compared with tolerance 1e-18; "
    "pnl_unrealised, tear sheets, statistics, connectivity and time stamps are not compared",
]
SOURCE_FILES = ["barter/src/system/mod.rs", "barter/src/system/builder.rs", "barter/src/engine/mod.rs", "barter/src/engine/run.rs",
                "barter/src/engine/state/mod.rs", "barter/src/engine/state/position.rs", "barter/src/engine/state/asset/mod.rs",
                "barter/src/engine/state/order/mod.rs", "barter/src/engine/action/send_requests.rs",
                "barter/src/execution/builder.rs", "barter/src/execution/manager.rs", "barter/src/execution/request.rs",
                "barter-execution/src/exchange/mock/mod.rs", "barter-execution/src/exchange/mock/account.rs",
                "barter-execution/src/exchange/mock/request.rs", "barter-execution/src/client/mock/mod.rs",
                "barter-execution/src/indexer.rs", "barter-execution/src/map.rs"]


def signature(ops, k, key, impl_line, spec_line):
    op = ops[k].split() if k < len(ops) else ["?"]
    kind = op[0]
    base = key.rstrip("0123456789")
    clause = {"xbal": "exchange_ledger", "xtrades": "exchange_fills", "resp": "responses", "h": "script/handle", "m": "script/market",
              "net": "agreement/position", "led": "agreement/balance", "agree": "agreement",
              "hnet": "prefix_view/position", "hbal": "prefix_view/balance", "fhnet": "prefix_view/position",
              "fhbal": "prefix_view/balance", "ord": "lifecycle_closed", "own": "own_engine"}.get(base, key)
    return f"clause={clause}/op={kind}"


CLAIM = False
TECHNIQUE = ("Lean 4: the C20S transition system (handle calls, forwarders, engine runner, one FIFO feed, arbitrary scheduler) with its abstract engine and execution records "
             "INSTANTIATED by the existing concrete models (C03/C19 engine core + C01 order tables + C02 position managers + C09 balance registers; C08 exchange ledger behind "
             "C07 / C08C / C04M); system-level theorems by chaining the component theorems through the C20S invariants (own engine = fold, flow conservation) plus new "
             "invariants (exchange: produced notifications determine ledger and trade log; engine: a tracked order has a response outstanding; input guard: positive requests / well-formed position "
             "records along every schedule); an OPS-LEVEL specification (what the script of handle calls and market items alone determines, composed from the C08 / C02 / C01 specifications) proved to be "
             "refined by the composed model; correspondence with the real System + real MockExchange queried through a second real client, oracle = the ops-level specification")
LEVEL_TEXT = ("Proof (sub-check of C20). Lean theorems (lean/BarterModel/Props/C20E.lean) over the COMPOSITION of the existing concrete models inside the C20S scheduler model, for "
              "EVERY action list (every tokio schedule, every handle-call sequence, every market input), unbounded: "
              "(1) responses are answers to requests, system level: responses_processed_at_most_once, responses_never_exceed_requests, every_request_answered_once_at_quiescence, "
              "responses_are_requests_at_quiescence (at every quiescent observation the identities of the responses the engine has processed are, as a multiset, the identities of the requests sent). "
              "That the execution side produces one response per request carrying the exchange's verdict holds by construction of the model's one-step `respond` (bookkeeping: one_response_per_request, "
              "response_is_exchange_answer, engine_log_is_requests, exchange_is_C08_run, requests_are_what_ticks_report_sent); C07 / C08C are re-exported over their own transition systems, NOT tied to the "
              "composed system by a simulation (mock_client_echoes = C07's EchoesKey discharged, response_is_managers_event, manager_answers_exactly_once, client_returns_exchange_verdict); "
              "(2) the order life cycle closes: exchange_response_is_final, produced_orders_are_final, processed_orders_never_reopen, response_closes_order, response_step_is_lifecycle (C01), closed_until_next_request, "
              "order_gone_after_response (its former hypothesis `no later snapshot re-opens` discharged), tracked_order_has_response_outstanding (in flight => more requests sent than responses processed), "
              "no_order_tracked_at_quiescence; "
              "(3) accounting agreement at quiescence WHILE THE ENGINE RUNS (Quiescent includes `not stopped`; for the engine shutdown()/abort() hand back see (5)): exchange_invariant, produced_fills_are_trade_log, "
              "positions_agree_at_quiescence (+ _any_clock: the position half needs no clock hypothesis), "
              "balances_agree_at_quiescence (C09 carries_max + C08 exact_debit, strictly increasing client clock), accounting_agreement_at_quiescence (Spec.Agree), "
              "engine_view_refines_exchange_spec; through the index / name translation, for OPEN requests: name_level_exchange_shows_this_exchange (under C04M's ViewHyp the name-level mock exchange "
              "behind the ExecutionInstrumentMap shows the same balance snapshot and fill - both absent for a rejected order - and the same verdict when accepted; cancel requests and the rejection outcome are C04M's own theorems); "
              "(4) rejected_changes_no_ledger; (5) engine_view_is_heard (position = net of the fills "
              "HEARD, balance = deliver over the balances HEARD, at every moment, running or stopped), heard_balance_is_latest_heard, heard_is_part_of_exchange_log, "
              "and the C20 finding F11 kept as shutdown_overtakes_fill_witness (two schedules, same calls, graceful shutdown in both: engine "
              "long 1 / quote 900 vs flat / quote 1000 with the order still in flight, exchange filled in both); "
              "(7) the input guard: posOps_requests_positive (PosOps on the inputs => every request of every run is positive, the strategy's and close_positions' own included: `hpos` discharged), posOps_no_panic "
              "(no tick hits a vanishing divisor of the position code), accounting_agreement_at_quiescence_of_posOps; what the guard excludes: price_zero_exit_panics_witness, zero_quantity_position_panics_witness; "
              "(8) the ops-level specification: requests_refine_ops_spec (every schedule, every moment: the requests sent are those the specification derives from the script of handle and market events) and "
              "model_refines_ops_spec (at quiescence the exchange's ledger and trade log, the engine's positions and balances, the processed responses and the order tables are what the C08 / C02 / C01 specifications "
              "compute from the script alone, and the script is exactly the handle events sent and the market items pushed). "
              "Definitional / bookkeeping, not results: order_response_changes_no_accounting (rfl), command_reads_accounted_position (a duplicate field of the model), lMkEngine_*, stopped_engine_hears_nothing_more. "
              "The composed model is tied to the code by driving the real System "
              "and the real MockExchange on every run and comparing, at every observation, the engine's view AND the exchange's own ledger / trade log.")
LEVEL_NOTE = ("Trusted: Lean kernel; axioms propext/Classical.choice/Quot.sound only; the hand-written glue (Model/TradingLoop.lean) and the component models it imports; harness "
              "(recording clock, counting relay on the account channel, replay of the recorded feed through a fresh real Engine, second MockExecution client, hand-written mock "
              "instrument table), driver, orchestrator. Oracle (review B C20E-1): the spec driver is the OPS-LEVEL specification TradingLoop.OpsSpec - it never runs the model; every key it prints is a function of the "
              "op lines, the exchange configuration and independently written specification functions: INDEPENDENT keys: `h` / `m` (the script of the block), `xbal` / `xtrades` (C08 specification over the "
              "requests the script determines: every observation), `hnet` / `hbal` / `fhnet` / `fhbal` (C02 net / C08 ledger over the requests whose answers have been heard under the block discipline), and at "
              "observations with nothing outstanding `net` / `led` / `agree 1` / empty `ord<i>` / `resp` (one response per request); the chain is ops-spec >= model (requests_refine_ops_spec, model_refines_ops_spec) ~ code "
              "(correspondence). The specification determines cases without close_positions / cancel_orders commands inside the input guard; from the first op outside that class on it is SILENT: those "
              "blocks (26 % of the observation blocks of the quick run) are CORRESPONDENCE-ONLY (impl vs model), and no key is any longer the model's own run read through spec functions. `alive`, `a`, the full "
              "position records, `sum`, `price`, `ebal`, `trading`, `processed`, `fagree`, `shutdown_audit` beyond H:shutdown are correspondence-only keys. Not exhibited: when the blocking engine thread runs, OS "
              "timing, Decimal rounding, the manager's request timeout (never reached), a non-strict client clock, a second exchange.")
