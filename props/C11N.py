N = {"quick": 400, "thorough": 8000}
EXHAUSTIVE = {"quick": False, "thorough": True}
RULE = ("one fixed case covering the WHOLE ExchangeId enum (42 variants: exall + per variant exch / exde of as_str and of the variant identifier / "
        "new_from_exchange / new_from_exchange_underlying; the harness' table is complete by construction: a wildcard-free `match` over ExchangeId "
        "makes it fail to compile when a variant is added or removed, and `exall` compares the table with the variant list parsed from exchange.rs) "
        "+ random cases of three kinds: 30 % name cases (12 / thorough 24 stateless ops over {ani, ane, ini, ine, nfe, nfu, eqci, cmp, asset, assetx, "
        "idx, keyed, side, sidede, exde, md}; strings from a per-case pool of 4 built from 10 words in 5 casings, 5 separators, digits, 6 % with one of "
        "14 awkward ASCII characters (quote, backslash, control characters, the neighbours of A-Z / a-z), 3 % empty; market-data kinds with 12 boundary "
        "expiries (epoch, day boundaries, 29 Feb 2000 / 2024, 1 Jan 2100, 31 Dec 9999 = the largest expiry an op may carry: a larger one is answered `bad-op` by harness, model "
        "and spec) and strikes with scale 0-8 incl. 0 and negatives), 10 % the same with a "
        "non-ASCII probe stream (Latin-1, Greek, Cyrillic capitals / smalls, U+0130, final and capital sigma in strings of <= 20 bytes, uncased CJK / emoji / "
        "Arabic digit; compared implementation-vs-model only, the spec is silent), 60 % index cases (0-6 / thorough 0-10 definitions through Instrument::new / "
        "Instrument::spot over 1-4 exchanges drawn from the whole enum, 2-4 instrument names and 2-4 assets each written in random casings so that different "
        "raw spellings collide after normalisation, 20 % verbatim repeats, 12 % an internal asset name with two exchange names, all four kinds, specs with asset "
        "/ contract / quote units; then map_exchange_key / map_asset_key_with_lookup with a random set of missing assets, `build` (IndexedInstruments::new = "
        "builder = from_iter, the three accessor tables) and 4-10 (16) lookups find_exchange_index / find_exchange / find_asset_index / find_asset / "
        "find_instrument_index / find_instrument with present and absent keys, out-of-range indices, names in other casings; 4 % lookups before build, 3 % a "
        "49-character name). thorough additionally enumerates every string of length <= 3 over {a, B, _} (40 strings: the three constructors, and eqci + cmp "
        "for every ordered pair) and every sequence of 1-3 definitions from a pool of four that collide in every way, each followed by a full lookup sweep "
        "(3 exchanges x 5 asset names x 4 instrument names, every index up to one past the end). Input-domain family `b`, separately seeded and appended (N/80 cases): LARGE collections of "
        "50-130 definitions (every fifth one, the third first, 260-320: positions past u8) over 3-8 exchanges of the whole enum (30 % with the first and the last variant), 8-24 assets of "
        "which a quarter carry one of three shared exchange names (two internal names of one exchange under one exchange name), instrument names from a pool a third the size of the "
        "collection (many definitions under one (exchange, name)), every decimal from {0, 1, 2, 5, 9, 10, 100, 1e12-1, 1e12} (numeric order is not the order of the digit strings), "
        "15 % verbatim repeats; then 16 random lookups and sweeps at the far end of each table: fx at size-1 / size / size+1 / 255 / 256 / 65535 / 65536, fi in the upper half of the "
        "table up to one past the end, fa over the whole possible range, fa / fi at 255, 256, 257, 2^16-1, 2^16, 2^32-1, 2^32. A case is distinct by the SHA-1 of its op lines and "
        "non-trivial when two of its ops produce different observations. Oracle (spec mode, computed from the ops alone by functions that do not call the builder model): "
        "names = the documented letter-table reading; map_asset_key_with_lookup = Ok with every asset replaced, or the FIRST missing reference in the order base, quote, "
        "settlement, quantity unit; `build` = the three counts, exchanges() = the variants that occur in declaration order, assets() = the distinct (exchange, asset) pairs "
        "ascending in (exchange, internal name, exchange name) with key = position, instruments() = the distinct definitions ascending in the derived order of the type "
        "declarations with the exchange reference = position of the exchange and every asset reference = position of the asset it was defined with; find_exchange_index / "
        "find_asset_index / find_instrument_index = Ok(rank) exactly when added during initialisation (rank = number of distinct entries whose (exchange, internal name) comes "
        "first), otherwise the documented error variant; find_exchange / find_asset / find_instrument = the entry at that position, the error of their own kind past the end")
ASSUMPTIONS = [
    "char::is_lowercase / char::to_lowercase are modelled exactly on ASCII; on Latin-1, Greek U+0391-U+03C9, Cyrillic U+0400-U+045F and U+0130 the model's table is an "
    "assumption that the non-ASCII probe stream exercises (implementation vs model only); every other character is taken as uncased and is generated only from "
    "uncased blocks. All theorems that mention the documentation's word `lowercase` are stated for ASCII (IsAscii); idempotence and the constructor identities hold "
    "for the whole model table",
    "StrExt::to_lowercase_smolstr lower-cases character by character only for strings of <= 23 UTF-8 bytes; longer strings go through str::to_lowercase, which maps a "
    "word-final capital sigma to U+03C2. Only the character-wise mapping is modelled; generated strings containing a capital sigma stay below 21 bytes and are not used "
    "where the constructor prepends an exchange name",
    "names entering the builder model (Model/Index.lean, naturals) go through the name code `code`: injective and strictly monotone for at most 48 Unicode scalar values "
    "(proved: name_code_faithful); longer names are answered `toolong` by harness, model and spec alike. ExchangeId enters as its declaration position (bijection proved), "
    "decimals and expiries of an Instrument as naturals (integer Decimals, millisecond timestamps)",
    "serde is modelled at the level of the serde data model for the name types, ExchangeId and Side (a string in, a string out); for MarketDataInstrument the JSON text "
    "serde_json produces is modelled (string escaping included) and compared, its deserialiser is exercised by the harness only (round trip = 1)",
    "Decimal's Display is modelled from (mantissa, scale) as given to Decimal::new, scale <= 8 in generated cases; NaiveDate's Display for timestamps 0 .. 253402300799999 ms "
    "(year 9999; proleptic Gregorian civil-from-days). An op with a larger expiry is malformed (`bad-op` for harness, model and spec): chrono prints five-digit years with a "
    "sign, cannot represent times past year 262142, and from 2^63 on the harness' conversion to i64 would wrap (corpus R6_expiry_bounds). Negative timestamps cannot be written",
    "IndexError payload strings are not compared (only the variant and that Display starts with the variant's prefix); Hash / Ord derives other than the string order used "
    "by the builder's sort are not modelled; Borrow / AsRef are checked to return the name (harness-side equality)",
    "the spec (oracle) is silent where the documentation does not determine the answer or the code contradicts it: non-ASCII inputs (a non-ASCII definition silences the "
    "stateful ops of its case), new_from_exchange_underlying's exchange prefix, Display of ExchangeId, the error variant of a failed find_instrument_index, and - in a case where "
    "one internal asset name carries two exchange names on one exchange (WFAssets of C11 violated) - the `in` lines of `build` and the value of find_instrument: the code resolves "
    "such a reference to the FIRST asset with that internal name, not to the one the instrument was defined with (C11 asset_two_exchange_names_witness); counts, exchanges(), "
    "assets() and every lookup by key keep their values there. The order the spec gives several definitions that share (exchange, name_internal) - the remaining members of "
    "the derived Ord, read off the type declarations - is tied to the code by the run only (theorem side: find_instrument_index_least over the model's sort key)",
    "the lookup theorems (sections E, G) range over the IndexedInstruments that IndexedInstruments::new / the builder / from_iter produce. The type also derives Deserialize: a "
    "value read from arbitrary JSON need not have key = position, ascending tables or distinct entries; such values are outside the theorems and are not generated",
    "well-formedness hypotheses of C11 (WFAssets, WFNames) are NOT assumed: duplicates of (exchange, name_internal) and internal asset names with two exchange names are "
    "generated on purpose and covered by the first-match theorems",
]
SOURCE_FILES = ["barter-instrument/src/asset/name.rs", "barter-instrument/src/asset/mod.rs", "barter-instrument/src/instrument/name.rs",
                "barter-instrument/src/exchange.rs", "barter-instrument/src/instrument/market_data/mod.rs",
                "barter-instrument/src/instrument/market_data/kind.rs", "barter-instrument/src/instrument/mod.rs",
                "barter-instrument/src/instrument/kind/mod.rs", "barter-instrument/src/instrument/kind/option.rs", "barter-instrument/src/lib.rs",
                "barter-instrument/src/index/mod.rs", "barter-instrument/src/index/error.rs"]


def signature(ops, k, key, impl_line, spec_line):
    """clause = observation key, class = the op kind (for lookups: found / missing as the spec sees it)"""
    try:
        op = ops[k].split()[0]
        return f"clause={key}/{op}"
    except Exception:
        return f"clause={key}"


CLAIM = False
TECHNIQUE = ("Lean 4: function-for-function model of the name / key types of barter-instrument and of the error-carrying lookups of IndexedInstruments on top of the C11 "
             "builder model (strings enter it through a proved order-preserving injective code); finite-table facts by kernel `decide` over the whole ExchangeId enum; "
             "first-match characterisation of find_map lookups; refinement to a specification written from the doc comments; correspondence with the real functions")
LEVEL_TEXT = ("Sub-check of C11. Lean theorems (lean/BarterModel/Props/C11N.lean, 83 audited), all for arbitrary inputs unless marked ASCII. Names: internal names are the lower-cased "
              "input, the all-lowercase shortcut is unobservable, constructors idempotent, (ASCII) equal to the documented letter-table reading, length preserving, and two "
              "inputs give the same name iff they are equal up to the case of Latin letters; deserialising what was serialised / displayed gives a constructed value back, and for "
              "an arbitrary value of the pub-field InstrumentNameInternal iff it is already lower-case. The ExchangeId table: 42 variants, "
              "declaration position a bijection, as_str injective, serde snake_case = as_str = documented reading, what deserialises to a variant (as_str, plus `huobi` for "
              "Htx), Display never equal to as_str (lower-cased it is as_str without the underscores); new_from_exchange = as_str-dash-lowercased name and determines the exchange and the name up to case "
              "(`unique across exchanges`); new_from_exchange_underlying uses Display, agrees with new_from_exchange for EVERY base and quote exactly on the exchanges without an "
              "underscore (underlying_agrees_pointwise; 26 of the 42, 16 disagree: underlying_agreement_counts), determines the exchange (underlying_determines_exchange) but "
              "not (base, quote) (underlying_collision); the name code is injective, strictly monotone w.r.t. Rust's str order and decodable up to 48 characters, and the bound is "
              "necessary (name_code_bound_necessary). map_asset_key_with_lookup succeeds iff every referenced asset is found, then with exactly the mapped value "
              "(map_asset_key_ok_value), and otherwise returns the lookup's error of the first "
              "missing reference in the order base, quote, settlement, quantity unit; with the error forgotten it is the Option form the C11 builder model uses. For EVERY index the C11 builder model can produce, without "
              "well-formedness hypotheses: each find_*_index answers Ok i iff position i holds a matching entry and no earlier position does (for exchanges: iff position i "
              "holds it), each find_* (i) returns the i-th entry iff i is in range, a miss gives exactly the stated IndexError and happens iff no definition mentions the key; "
              "exchanges() / assets() hold exactly the exchanges / (exchange, asset) pairs the definitions mention, each once, key = position; exchanges() and assets() are strictly "
              "ascending (declaration order; exchange, internal name, exchange name), instruments() ascending in (exchange, internal name); the answers of the three lookups by key "
              "are functions of the input alone: the rank among the distinct exchanges / the number of distinct (exchange, asset) pairs / of distinct definitions whose "
              "(exchange, internal name) comes first (find_exchange_index_is_rank, find_asset_index_is_rank, find_instrument_index_is_rank); with several definitions under one "
              "(exchange, name_internal) find_instrument_index returns the least in the derived order, and the entry at the answered index carries that definition's names, its "
              "exchange's position and - under WFAssets - reads back to the definition itself (find_instrument_index_entry). On string-named definitions the lookups refine the "
              "documented behaviour (found iff added during initialisation, round trip through the positional lookup, the queried name enters only through its lower-casing: "
              "lookup_ignores_case'), and the specification's own tables and values - written without the builder - are the builder's: exchange_table_is_spec, asset_table_is_spec "
              "(insertion into an ascending list = sort + dedup), lookup_exchange_index_value / lookup_asset_index_value / lookup_instrument_index_value, positional_values. "
              "Counter-documentation facts are theorems too: missing_instrument_reports_asset_error, display_is_not_as_str / underlying_agrees_iff / underlying_collision, "
              "display_not_value_function. Definitional / bookkeeping statements (they restate the model's definitions and are not results): exchange_names_verbatim, "
              "asset_new_from_exchange, instrument_new_fields, map_exchange_key_laws, market_data_new, the Display and the two exchange-name conjuncts of serde_display_round_trip, "
              "the first conjunct of display_is_not_as_str (Display = variant identifier). The model is tied to the code by running the same ops through the real functions; the "
              "spec driver prints every table and every lookup value above as a function of the ops.")
LEVEL_NOTE = ("Trusted: Lean kernel (axioms propext/Classical.choice/Quot.sound only); the hand-written model tied by sampled correspondence (whole ExchangeId enum on every run); "
              "harness and driver (the spec mode's sorting and ranking functions are those of Model/Names.lean, section `tables`; its comparator for the derived order of whole "
              "Instrument values beyond exchange and internal name is tied by the run only); the non-ASCII rows of the case tables are an assumption (probed, not proved); "
              "str::to_lowercase's final-sigma rule for names longer than 23 bytes is outside the model; IndexedInstruments values obtained by deserialisation are outside the theorems.")
