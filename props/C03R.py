N = {"quick": 400, "thorough": 12000}
EXHAUSTIVE = {"quick": False, "thorough": True}
RULE = ("one fixed boundary case (equal values, one step either side of a limit, NaN / +-inf / -0.0 limits and inputs, zero and negative reference "
        "values, overflow of an intermediate and of the final product at 2^95 / 2^96-1, the rounding witnesses of rust_decimal's multiplication "
        "[round-then-overflow MAX x 0.5 x 2, underflow to zero 1e-28 x 1e-28, rounding into range, ties to even], empty and duplicated request "
        "lists) + the committed corpus/C03R/edge.ops + random cases of 3-10 "
        "(thorough 3-16) independent ops over {chk dec|int|f64, notional, notionalk spot|perp|fut|opt, apd, delta, rm, appr, refuse, refuses}: "
        "decimals from an 18-value pool or random with <= 5 digits and scale <= 4, inputs of a check biased to the limit itself and one unit "
        "of the last place either side, 15-25 % of the arithmetic ops on 29-digit integers / powers of ten to exercise overflow, 15 % of the "
        "notional / delta ops on decimals of the WHOLE Decimal range (mantissa up to 96 bits from an edge pool or random, scale 0..28) so that "
        "products round, underflow to zero and overflow after rounding (compared exactly: the model rounds as rust_decimal does), request lists "
        "of length <= 6 (12) over few distinct requests with adjacent duplicates; every op calls the real function of barter::risk in-process. "
        "Plus a separately seeded input-domain family (one `d` case per eight random ones; fixed instances in corpus/C03R/domain.ops): chk int / appr / refuse / refuses at the i64 limits, chk dec at "
        "the ends of the Decimal range (2^96-1, 1e-28, either sign, -0), rm with opens whose prices / quantities are SIGNED (negative, 0, 1e-28, +-(2^96-1)), indices / ids of 1e6 and the u64 state at its limits. "
        "Plus a separately seeded configuration-shape family (one `cfg` case per sixteen random ones; corpus/C03R/cfg_kinds.ops): notionalk over option PUTS, American / Bermudan exercise, settlement asset 7, expiry at the epoch, "
        "strike 0 (`notionalk` otherwise always builds a European call settled in asset 0): the contract size read by the notional must not depend on any of them. "
        "thorough additionally enumerates chk dec / apd over a 7x7 grid, chk f64 over 8x8 (with NaN, +-inf, -0.0), chk int over 7x7, notional and delta over "
        "the full 7^3 grid (incl. 2^95 and 2^96-1 meeting 0.5) and DefaultRiskManager::check over every pair of request lists of length <= 2. A case is distinct by "
        "the SHA-1 of its op lines and non-trivial when two of its ops produce different observations. The oracle (spec mode) speaks on notional / "
        "delta only where the theorems determine the answer from the inputs: the exact product where every intermediate product is exactly "
        "representable, none / panic where a product of exactly known operands is >= 2^96; it is silent where a product is rounded")
ASSUMPTIONS = [
    "Decimal is modelled as a rational. Multiplication (calculate_quote_notional, calculate_delta) is modelled WITH rust_decimal's rounding "
    "(decMul: exact when the product is a Decimal, otherwise half-to-even at the largest scale <= 28 whose mantissa fits 96 bits, None / panic "
    "when scale 0 does not fit); that rounding model is hand-written from rust_decimal 1.43 ops/mul.rs + ops/common.rs (not translated) and is "
    "tied by correspondence over the whole Decimal range. The `fits`-parametric theorems are about exact arithmetic, in which `fits` decides "
    "only overflow of the exact product: they speak about the code under the explicit hypothesis decExact of every intermediate product. "
    "checked_sub / checked_div of calculate_abs_percent_difference stay exact in the model (their rounding is not modelled): operands of apd "
    "are small or integers / powers of ten, and quotients are compared to 1e-18",
    "arguments of the arithmetic ops are Decimals (<= 28 fractional digits, mantissa < 2^96); the model driver answers bad-op to anything else "
    "(the harness's str::parse::<Decimal> would round it)",
    "calculate_abs_percent_difference is specified (oracle) for a positive reference value `other` (prices) and for other = 0 (None); for a "
    "negative reference the code returns a NEGATIVE number (|current-other| / other): modelled as the code behaves and compared impl-vs-model only",
    "CheckHigherThan<T> is exercised for T = Decimal, i64 and f64 (NaN, +-inf, -0.0 + multiples of 1/4); PartialOrd::le is a parameter of the model; "
    "the f64 model identifies -0.0 with 0.0 (`<=` does not distinguish them and the Display text of an f64 payload is not observed) and has no "
    "subnormal / precision phenomena (finite values are exact rationals)",
    "calculate_delta's unchecked Decimal multiplications panic on overflow; the model reports `panic` for the same inputs; the oracle says `panic` "
    "only where a product of exactly known operands is >= 2^96 and is silent on the other panics",
    "DefaultRiskManager is exercised with State = u64 and indexed order requests; the request and state types are parameters of the model; "
    "DefaultRiskManager::check is outside the translated subset: tied to its one-line model by sampling only",
    "serde / Ord / Hash derives of the wrapper types are not modelled",
]
SOURCE_FILES = ["barter/src/risk/mod.rs", "barter/src/risk/check/mod.rs", "barter/src/risk/check/util.rs",
                "barter-instrument/src/instrument/kind/mod.rs"]
PREBUILD = [["python3", "tools/rust2lean_sm.py", "--require", "risk"]]


def signature(ops, k, key, impl_line, spec_line):
    """clause = observation key, class = the op kind (and for `apd` the sign of the reference value)"""
    try:
        t = ops[k].split()
        cls = t[0]
        if t[0] == "chk":
            cls = "chk-" + t[1]
        elif t[0] == "apd":
            o = t[2]
            cls = "apd-" + ("neg" if o.startswith("-") else "zero" if float(o) == 0 else "pos")
        elif t[0] == "notionalk":
            cls = "notionalk-" + t[1]
        return f"clause={key}/{cls}"
    except Exception:
        return f"clause={key}"


CLAIM = False
TECHNIQUE = ("Lean 4: function-for-function model of barter::risk (wrappers, DefaultRiskManager, CheckHigherThan, util) with the Decimal range "
             "and PartialOrd::le as parameters; refinement to a specification written from the doc comments; correspondence with the real functions")
LEVEL_TEXT = ("Sub-check of C03. Lean theorems (lean/BarterModel/Props/C03R.lean). CheckHigherThan, for every checked type and PartialOrd::le: passes exactly when "
              "input <= limit (check_ok_iff / check_error_iff: failure carries limit and input unchanged; equal values pass; monotone in input and limit; two limits = "
              "their minimum; NaN never passes, +inf limit passes all but NaN). calculate_quote_notional and calculate_delta are modelled twice. (1) Over rust_decimal's "
              "multiplication WITH its rounding (notionalDec / deltaDec, what the driver runs): on the explicit exactness domain - every intermediate product in the "
              "code's order (q*p then (q*p)*cs; q*cs then d*(q*cs)) exactly representable as a Decimal, decExact; in digits: scales add up to <= 28 and mantissa products "
              "< 2^96 - the code returns exactly quantity x price x contract_size, resp. +/- delta x size x quantity (notional_exact_of_no_rounding, _of_digits, "
              "delta_exact_of_no_rounding), is positive / additive in quantity / signed as documented there (notional_pos, notional_add_quantity, delta_sign, "
              "delta_linear_instrument); unconditionally: None / panic only when the exact product of the actually stored operands exceeds 2^96-1 and always when it "
              "reaches 2^96 (notional_none_only_on_overflow, delta_panics_only_on_overflow, mul_overflow_bounds), results are Decimals, rounding error <= half a unit of "
              "the last place (mul_rounding_error), Sell = -Buy, q and p commute, zero quantity gives 0; OFF the domain the code differs from the exact product, stated as "
              "witnesses: MAX x 0.5 x 2 is None although every exact product fits (notional_rounds_then_overflows), 1e-28 x 1e-28 x 1 is 0 "
              "(notional_underflows_to_zero, delta_underflows_to_zero), 79228162514264337593543950335.1 is rounded INTO range (notional_rounds_into_range), ties go to even. "
              "(2) Over exact arithmetic with an arbitrary predicate `fits` on the exact result (notional_sound / _complete / _none_iff, delta_panics_iff, "
              "notional_small_multiplier, max_notional_check): true of that model for every `fits`; `fits` decides only overflow of the exact product, and these are "
              "statements about the code only under the exactness hypothesis (then the two models coincide). calculate_abs_percent_difference (exact arithmetic; "
              "sub / div rounding not modelled): equals |current-other|/|other| for a positive reference and is then >= 0 (apd_refines_spec, apd_sound_pos), None "
              "for a zero reference, the NEGATED documented value for a negative reference (apd_negative_reference), 0 iff equal, symmetric in the sign of the "
              "deviation, scale invariant for a POSITIVE factor (apd_scale_invariant; fails at k = -1: apd_scale_invariant_fails_negative), price_band_check. "
              "Theorems named spec..._... are laws of the documented SPEC function only (they do not mention the code); each has the code-side statement named next "
              "to it. DefaultRiskManager (model `map RiskApproved::new`, tied by sampling only): approves every request in order with multiplicity "
              "(default_refines_spec, default_approves_in_order, default_multiplicity, default_append) and satisfies the conservation contract of RiskManager "
              "(default_conserves, conserves_perm; verdict_conserves for every per-request verdict). Link with C03, inside the models: for any risk-manager output "
              "that is the per-request split by a verdict `refuse`, Engine.generateAlgoOrders at that verdict IS the engine step fed with that output "
              "(engine_step_of_risk_output; engine_step_with_default_risk_manager for `never refuse`); not stated: that the Rust engine routes RiskManager::check's "
              "iterators this way (that is C03's engine model). The model is tied to the code by running the same ops through the real functions.")
LEVEL_NOTE = ("Trusted: Lean kernel (axioms propext/Classical.choice/Quot.sound only); the hand-written model tied by sampled correspondence; harness and "
              "driver. Decimal multiplication IS modelled with rounding (full model of rust_decimal's mul as a function of the exact product: half-to-even at the "
              "largest scale whose mantissa fits 96 bits; validated on the harness over the whole Decimal range, 140k random edge products without a difference, "
              "and on every run by the 15 % edge share of the generator and corpus/C03R/edge.ops); rounding of checked_sub / checked_div is not modelled. "
              "Definitional / bookkeeping statements (rfl, not results): approved_into_item_new, approved_new_into_item, refused_new_fields, default_refuses_nothing, "
              "default_state_independent, default_kinds_independent, check_name; check_f64_refines_spec is near-definitional (specCheckF64 re-spells f64's <= on the "
              "extended line). default_is_never_refuse compares the model of DefaultRiskManager::check with the four filter expressions written out; "
              "engine_default_risk_refuses_nothing is a fact about the engine model at a constant verdict. "
              "Additionally tied by translation: the wrappers' new / into_item, CheckHigherThan::{new, check} (for every PartialOrd::le) and the three util.rs helpers are regenerated from the current source on every run by tools/rust2lean_sm.py (Generated/Machines2.lean) and proved equal to the EXACT-arithmetic model (kernels_agree_with_source; overflow-free instance, and value-for-value for every predicate `fits`); the translator and its prelude are trusted for that tie; the rounding model decMul is outside it (correspondence only).")
