N = {"quick": 400, "thorough": 12000}
EXHAUSTIVE = {"quick": False, "thorough": True}
RULE = ("one fixed boundary case (equal values, one step either side of a limit, NaN limits/inputs, zero and negative reference values, "
        "overflow of an intermediate and of the final product at 2^95 / 2^96-1, empty and duplicated request lists) + random cases of 3-10 "
        "(thorough 3-16) independent ops over {chk dec|int|f64, notional, notionalk spot|perp|fut|opt, apd, delta, rm, appr, refuse, refuses}: "
        "decimals from an 18-value pool or random with <= 5 digits and scale <= 4, inputs of a check biased to the limit itself and one unit "
        "of the last place either side, 15-25 % of the arithmetic ops on 29-digit integers / powers of ten to exercise overflow, request lists "
        "of length <= 6 (12) over few distinct requests with adjacent duplicates; every op calls the real function of barter::risk in-process. "
        "thorough additionally enumerates chk dec / apd over a 7x7 grid, chk f64 over 5x5 (with NaN), chk int over 7x7, notional and delta over "
        "a 7^3 grid (incl. 2^95 and 2^96-1) and DefaultRiskManager::check over every pair of request lists of length <= 2. A case is distinct by "
        "the SHA-1 of its op lines and non-trivial when two of its ops produce different observations")
ASSUMPTIONS = [
    "Decimal is modelled as an exact rational; overflow is the predicate |r| <= 2^96-1 applied to the exact result (theorems hold for an arbitrary "
    "representability predicate `fits`); rounding of results with more than 28 fractional digits is not modelled: generated factors are either "
    "small (<= 5 digits, scale <= 4) or integers / powers of ten, so + - x are exact, and division results are compared to 1e-18",
    "calculate_abs_percent_difference is specified (oracle) for a positive reference value `other` (prices) and for other = 0 (None); for a "
    "negative reference the code returns a NEGATIVE number (|current-other| / other): modelled as the code behaves and compared impl-vs-model only",
    "CheckHigherThan<T> is exercised for T = Decimal, i64 and f64 (NaN + multiples of 1/4); PartialOrd::le is a parameter of the model",
    "calculate_delta's unchecked Decimal multiplications panic on overflow; the model reports `panic` for the same inputs; the oracle is silent there",
    "DefaultRiskManager is exercised with State = u64 and indexed order requests; the request and state types are parameters of the model",
    "serde / Ord / Hash derives of the wrapper types are not modelled",
]
SOURCE_FILES = ["barter/src/risk/mod.rs", "barter/src/risk/check/mod.rs", "barter/src/risk/check/util.rs",
                "barter-instrument/src/instrument/kind/mod.rs"]
PREBUILD = [["python3", "tools/rust2lean_sm.py", "--require", "risk"]]


def signature(ops, k, key, impl_line, spec_line):
    """clause = observation key, class = the op kind (and for `apd` the sign of the reference value)"""
    try:
        t = ops[k].split()
        cls = t[0]
        if t[0] == "chk":
            cls = "chk-" + t[1]
        elif t[0] == "apd":
            o = t[2]
            cls = "apd-" + ("neg" if o.startswith("-") else "zero" if float(o) == 0 else "pos")
        elif t[0] == "notionalk":
            cls = "notionalk-" + t[1]
        return f"clause={key}/{cls}"
    except Exception:
        return f"clause={key}"


CLAIM = False
TECHNIQUE = ("Lean 4: function-for-function model of barter::risk (wrappers, DefaultRiskManager, CheckHigherThan, util) with the Decimal range "
             "and PartialOrd::le as parameters; refinement to a specification written from the doc comments; correspondence with the real functions")
LEVEL_TEXT = ("Sub-check of C03. Lean theorems (lean/BarterModel/Props/C03R.lean), for all inputs: CheckHigherThan passes exactly when input <= limit "
              "(equal values pass; failure carries limit and input unchanged; monotone in input and limit; two limits = their minimum; NaN never passes); "
              "calculate_quote_notional is quantity x price x contract_size whenever it returns a value, returns one whenever no product overflows, and "
              "None only on overflow; per instrument kind (spot multiplier 1); calculate_abs_percent_difference equals |current-other|/|other| for a "
              "positive reference, is >= 0, 0 iff equal, symmetric in the sign of the deviation, scale invariant, None for a zero reference, and is the "
              "NEGATED documented value for a negative reference; calculate_delta = +/- delta x size x quantity, Sell = -Buy, additive in quantity, sign "
              "and magnitude bounds; DefaultRiskManager approves every request, in order, with multiplicity, refuses nothing, independent of state, and "
              "satisfies the conservation contract of RiskManager (approved ++ refused is a permutation of the input; also proved for every per-request "
              "verdict, the shape the C03 engine model assumes, of which DefaultRiskManager is the instance `never refuse`); composed: a max-notional check "
              "refuses exactly q*p*cs > limit, a max-deviation check accepts exactly other*(1-limit) <= current <= other*(1+limit). The model is tied to the code by running the same ops through the real functions.")
LEVEL_NOTE = ("Trusted: Lean kernel (axioms propext/Classical.choice/Quot.sound only); the hand-written model tied by sampled correspondence; harness and "
              "driver. Decimal rounding not modelled; overflow modelled as |exact result| > 2^96-1. "
              "Additionally tied by translation: the wrappers' new / into_item, CheckHigherThan::{new, check} (for every PartialOrd::le) and the three util.rs helpers are regenerated from the current source on every run by tools/rust2lean_sm.py (Generated/Machines2.lean) and proved equal to the model (kernels_agree_with_source; overflow-free instance, and value-for-value for every representability predicate); the translator and its prelude are trusted for that tie.")
