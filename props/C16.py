N = {"quick": 400, "thorough": 20000}
EXHAUSTIVE = {"quick": False, "thorough": True}
RULE = ("random cases: 1-3 instruments on two exchanges (3-5 exchange-assets), 0-40 (thorough 0-60) ops; 60 % `direct` cases feed "
        "PositionExited records (wins/losses/break-even, six entry prices x six sizes, 3 % negative entry prices, all-win / all-loss / "
        "break-even-heavy / mixed biases) to TradingSummaryGenerator::update_from_position, 40 % `engine` cases drive opening+closing fills "
        "(both sides, with and without fees) through the real Engine::process and read Engine::trading_summary_generator(..).generate(Daily); "
        "0/10/30 % of ops are balance snapshots with advancing, equal and stale timestamps; 6 % of direct cases end with an op on which the "
        "code panics (zero entry price, zero quantity, unknown instrument / asset index). Thorough additionally enumerates every sequence of "
        "length <= 4 over {win, loss, break-even} x {instrument 0, 1} (1 555 cases) and over five position sizes on one instrument (781 cases). "
        "After the random cases a separately seeded input-domain family (`d..`, N/8 cases, eight classes cycled; the random cases are unchanged by it): "
        "(0) engine round trips / flips with SIGNED fees - maker rebates on either fill, a closing fee that makes the position exactly break-even, one cent beyond, 12 % of the fills with a negative Trade.quantity (its magnitude counts); "
        "(1) long direct histories of 100-160 (thorough -300) closed positions, nine in ten on one instrument, 10 % immediate duplicates of the previous record; "
        "(2) long engine histories of 60-100 (thorough -160) round trips / flips; (3) exact extreme magnitudes, one regime per instrument (entry 1e-8 x size 1e12, entry 1e12 x size 1e-8, "
        "cost 1e-16 with PnL in units of 1e-17, cost 1e18 with PnL in units of 1e16 - PnL sums and returns stay exact Decimals); (4) the first two regimes as engine fills with signed fees; "
        "(5) odd balances on both paths - negative totals, free > total, free < 0, zero, negative and far exchange times with equal / stale ones right after; "
        "(6) 0 instruments (empty summary) or 4-6 instruments; (7) negative quantity_abs_max / negative entry / both, the same record on two instruments. "
        "The corpus (corpus/C16/domain.ops, run first) holds one hand-made case per class plus negative-zero PnL tokens. "
        "After the `d..` cases a separately seeded configuration-shape family (`cfg..`, N/8 cases; random and `d..` cases are unchanged by it) varies HOW the engine state is assembled (op `initb`): "
        "four instrument layouts cycled (the alternating two-exchange layout of `init`; 1-6 instruments on three exchanges unevenly filled, the first instrument on the last exchange; 1-4 instruments on ONE exchange with chained cross pairs that share assets; "
        "2-6 instruments that are the same pair on three exchanges), odd layouts with exchange 0 tracked but without an execution link, and in three of four cases INITIAL balances given to EngineStateBuilder::balances for a subset of the assets "
        "(zero / negative totals, 10 % an asset twice, 3 % an unknown asset: the builder panics), followed by 0-25 (thorough 0-40) events on either path incl. snapshots at and BEFORE the engine start (stale behind the engine's guard against the initial balance, applied by the direct generator); "
        "corpus/C16/cfg_initial_balances.ops and cfg_layouts.ops hold hand-made cases. "
        "A case is distinct by the SHA-1 of its op lines and non-trivial when the implementation's observation block changes at least once")
ASSUMPTIONS = [
    "every closed position has price_entry_average * quantity_abs_max != 0 (the code panics otherwise: Decimal division by zero; harness and model both report `panic`)",
    "events name an instrument / asset the engine was built with (the code panics otherwise); likewise an initial balance given to EngineStateBuilder::balances for an exchange-asset the instruments do not contain (AssetStates::asset_mut panics inside build(); harness and drivers report `panic`)",
    "initial balances (EngineStateBuilder::balances) are modelled as what build() does with them: one snapshot per configured asset at time_engine_start through AssetState::update_from_balance, before the engine and any generator taken from its state exist (Driver/C16.lean initEvs; the HashMap of the builder keeps the last of two entries for one asset = the later of two snapshots at equal time). The starting state is otherwise empty: no public builder option sets open positions or orders; instrument kinds other than spot are not generated (no code under engine/ or statistic/ branches on the kind)",
    "extreme magnitudes are generated per instrument within ONE exact regime (digits of the running PnL and of the running sum of returns fit a 96-bit Decimal mantissa); mixing 1e-17 and 1e16 PnL on one instrument makes rust_decimal round the sums - the declared number-range boundary (rounding not modelled), not generated",
    "exact rational arithmetic: rust_decimal rounding of the return, of the win-rate and profit-factor quotients is not modelled (compared to 1e-18); a Decimal quotient is never the negative zero",
    "InstrumentIndex / AssetIndex = position in the engine's FnvIndexMaps = position in the summary's maps (C11); the harness looks tear sheets up by instrument name / ExchangeAsset key",
    "Sharpe / Sortino / Calmar / drawdown fields of the tear sheets are outside C16 (C17, C18) and not compared",
    "the arithmetic kernels calculate_pnl_return (position.rs), WinRate::calculate (metric/win_rate.rs), ProfitFactor::calculate (metric/profit_factor.rs) are additionally tied to the source by translation: tools/rust2lean.py regenerates their Lean definitions from the current Rust text before every build (PREBUILD) and theorem kernels_agree_with_source proves them equal to the model's definitions for all arguments; trusted there: the translator's reading of the small Rust subset it accepts (it rejects everything else) and its fixed Decimal prelude (abs, is_zero, checked_div = None exactly on a zero divisor, MAX/MIN)",
]
SOURCE_FILES = ["barter/src/statistic/summary/instrument.rs", "barter/src/statistic/summary/pnl.rs", "barter/src/statistic/summary/mod.rs",
                "barter/src/statistic/summary/asset.rs", "barter/src/statistic/metric/win_rate.rs", "barter/src/statistic/metric/profit_factor.rs",
                "barter/src/engine/state/position.rs", "barter/src/engine/state/asset/mod.rs", "barter/src/engine/state/instrument/mod.rs",
                "barter/src/lib.rs", "barter/src/statistic/metric/drawdown/mod.rs", "barter/src/statistic/metric/drawdown/mean.rs",
                "barter/src/statistic/metric/drawdown/max.rs", "barter/src/statistic/summary/dataset/mod.rs",
                "barter/src/statistic/summary/dataset/dispersion.rs"]
PREBUILD = [["python3", "tools/rust2lean.py", "--require", "metric"],
            ["python3", "tools/rust2lean_sm.py", "--require", "dataset,pnl_returns"]]


def signature(ops, k, key, impl_line, spec_line):
    """violated clause + discriminating class of the input"""
    it, st = impl_line.split(), spec_line.split()
    head = ops[0].split() if ops else []
    mode = head[3] if len(head) > 3 else "?"   # `init n m mode` / `initb n m mode L<k> ..`
    if key == "ts" and len(it) == len(st) == 8:
        for name, pos in (("pnl", 3), ("win_rate", 5), ("profit_factor", 7)):
            if it[pos] != st[pos]:
                cls = st[pos] if st[pos] in ("none", "MAX", "MIN") else "ratio"
                return f"clause={name} mode={mode} expected={cls}"
    if key == "as":
        return f"clause=asset_entry mode={mode}"
    return f"clause={key} mode={mode}"


CLAIM = True
TECHNIQUE = ("Lean 4: induction over the list of closed positions (accumulator invariant, generalised over the start state) + refinement to "
             "a sum/count specification; induction over event histories for the keyed maps; correspondence of the model with "
             "TearSheetGenerator / TradingSummaryGenerator directly and end-to-end through Engine::process")
LEVEL_TEXT = ("Proof. Lean theorems over the tear-sheet model (lean/BarterModel/Props/C16.lean), for every finite list of closed positions fed to a "
              "fresh TearSheetGenerator: pnl = sum of pnl_realised (pnl_eq_sum); win rate = #(return >= 0)/n and absent iff n = 0 (win_rate_eq, "
              "win_rate_none_iff, win_rate_bounds); profit factor = gross winning returns / |gross losing returns|, absent when both are zero, "
              "Decimal::MAX when only the gross loss is zero, Decimal::MIN when only the gross win is zero (profit_factor_eq), with the conventions "
              "characterised on positions (gross_loss_zero_iff: no losing position; gross_win_zero_iff: no position with a positive return); the whole "
              "sheet refines the specification (tear_sheet_refines_spec). For every n, m and every event history, the TradingSummary produced by "
              "Engine::trading_summary_generator(..).generate(..) and the one produced by a directly updated TradingSummaryGenerator hold under "
              "instrument i the tear sheet of exactly i's closed positions and under asset a the balance_end of exactly a's snapshots "
              "(engine/direct_summary_instrument, engine/direct_summary_asset, engine_direct_instruments_agree). All full strength, unbounded in the "
              "number of positions, instruments, assets and events; no `_partial` theorem. The model is tied to the code by running the same "
              "histories through the real generators and through Engine::process on every run.")
LEVEL_NOTE = ("Trusted: Lean kernel; axioms propext/Classical.choice/Quot.sound only; the hand-written model (tied by sampled correspondence: 400 quick / "
              "20k random + 2 336 exhaustive small-scope cases thorough); harness and driver. Exact rationals instead of rust_decimal (quotients "
              "compared to 1e-18). Assumes non-zero entry_price*quantity_max per position and known instrument/asset keys (the code panics otherwise; "
              "checked as `panic` on both sides). Asset tear sheets: only balance_end is in scope (drawdowns are C18); Sharpe/Sortino/Calmar not compared. "
              "Break-even positions count as wins for the win rate and contribute zero gross win, so break-evens + losses give Decimal::MIN; "
              "the doc comment of ProfitFactor says `1.0` for zero profits and zero losses while code and unit test return None (reported, not a C16 clause). "
              "Additionally tied by translation: the Lean definitions of the kernels calculate_pnl_return (position.rs), WinRate::calculate (metric/win_rate.rs), ProfitFactor::calculate (metric/profit_factor.rs) are regenerated from the current source on every run (tools/rust2lean.py) and proved equal to the model's (kernels_agree_with_source), so a change of such a kernel breaks a proof obligation directly; the translator and its Decimal prelude are trusted for that tie. "
              "The PnLReturns / TearSheetGenerator state machine (PnLReturns::update, TearSheetGenerator::{init, update_from_position}, derived Defaults, Timed::new) is likewise regenerated by tools/rust2lean_sm.py (Generated/Machines2.lean) and proved to commute with this model's step functions through the field projections, and to equal the complete generator model of sub-check C16M field by field (state_machine_agrees_with_source; generate and algorithm::sqrt are not translated).")
SUBCHECKS = ["C16M", "C16K"]
