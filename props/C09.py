N = {"quick": 400, "thorough": 20000}
EXHAUSTIVE = {"quick": False, "thorough": True}
RULE = ("per case a pool of 1-8/10 distinct timestamped messages (balances incl. full account snapshots of 1-3 items, public trades, L1 books, open-order reports, "
        "TERMINAL order reports (cancelled / fully filled / expired / failed), cancel requests, and full account snapshots that mix balances with open and terminal order reports; "
        "timestamps from 1..2/3/6 so ties are frequent) is delivered as a random permutation WITH repetition (length pool..2*pool+2) through "
        "EngineState::update_from_account / update_from_market; every register is observed after every delivery. 10% of L1 messages carry a payload time "
        "different from the event time (model vs code only; the spec is silent). Thorough: additionally every delivery sequence of length <= 5 over 6 messages "
        "(3 timestamps x 2 values) for each of the four register kinds (9330 sequences each for balances and trades; 19607 for L1, which has a 7th message, an emptied book; 37448 for orders, "
        "which have 8 messages: the 6 open reports, a cancel request and a terminal report). A fifth of the random cases is the life of ONE order (2-4 open reports, a terminal "
        "report, possibly a cancel request and an account snapshot repeating part of it, delivered in random order with repetition). "
        "INPUT-DOMAIN family (a quarter as many cases again, own PRNG stream, ids d<n>): the same pool-and-permutation shape with every field drawn from the whole domain of its type - "
        "exchange times from palettes with 0, negative offsets, ties, 999/1000/1001 ms and gaps of hours / days (12 h crosses midnight, so the later instant has the smaller time of day); "
        "balances 0, free = total, free > total, negative, 1e-8, 1e12; trade prices 0 / 1e-8 / 1e12 / negative / 0.1 / six decimals with side Buy and Sell and amounts 0 / 2.5; "
        "ONE-SIDED tops of book (bid only / ask only, written `-1 -1`), amounts 0, prices 1e-8 / 1e12; open reports with filled in {0, q/2, q, q+2, q-1e-8}; market events that feed no "
        "register (candle, liquidation, L2 snapshot / update: op `mkt`); EMPTY full account snapshots; up to three instruments. "
        "CONFIGURATION family (N/6 + 2 cases, own PRNG stream, ids cfg<n>; configuration-shape audit): `init n x (B a total free)*` - 1-4 instruments spread over 1-3 exchanges (instrument i on exchange i % x, so `usdt` is "
        "one register PER exchange, global instrument index != position on the exchange, events carry other exchanges than the first) and a starting state with INITIAL balances for some assets "
        "(EngineStateBuilder::balances, stamped with the engine start time = exchange time 0), then the usual pool (times -2..3: older than, equal to and newer than the initial balances; full snapshots of one exchange) delivered as a permutation with repetition. Distinct by SHA-1 of op lines; non-trivial when an observed register changes at least once")
ASSUMPTIONS = [
    "set-up shapes (configuration-shape audit): an initial balance given to EngineStateBuilder::balances is read as a balance message delivered with the engine start time (`time_engine_start`, exchange time 0 in the cases): "
    "it takes part in 'the greatest exchange timestamp delivered so far' like any other; assets without an initial balance start with nothing delivered. One register per (exchange, asset). `init n x ...` requires 1 <= x <= min(n, 5) "
    "and distinct, in-range assets (otherwise `bad-op` on all three sides; the builder's HashMap would keep an unspecified one of two duplicates). Not varied: instrument kinds other than spot, "
    "custom InstrumentData / GlobalData, delivery through Engine::process instead of EngineState::update_from_account / update_from_market",
    "L1 events carry last_update_time = time_exchange (the guard compares the event time but stores the payload's own time); otherwise modelled but outside the spec",
    "trade prices are finite (Decimal::from_f64 succeeds; 0, negative, 1e-8 and 1e12 ARE delivered); exchange times are after the Unix epoch (the default OrderBookL1 carries the epoch timestamp; "
    "times are written relative to t0 = 2020-09-13T12:26:40Z, so 0 and negative offsets ARE delivered)",
    "a one-sided top of book is written with `-1 -1` for the absent side in the op AND in the observation, so the register model carries it as an ordinary value (no L1 message with a real price of -1 is generated)",
    "open-order reports of the ORIGINAL random family always have something left to fill (filled in {0, q/2}); the input-domain family also delivers open reports with NOTHING left "
    "(filled = quantity: Orders::update_from_order_snapshot removes / does not track such an order whatever its timestamp) and over-filled ones (filled > quantity: tracked like any other). "
    "The spec reads an open report with filled = quantity as BOTH a timestamped message about the order (its timestamp counts towards the greatest delivered) AND the exchange's word that the "
    "order is finished (from then on 'not held' is admitted, exactly as after a Filled report); a stale open report that re-tracks the order afterwards is the known clause=ord_resurrected; "
    "terminal order reports (cancelled / fully filled / expired / failed) and cancel requests ARE delivered, "
    "singly and inside full account snapshots; open requests and cancel responses are C01",
    "open-order details, the property LITERALLY (spec driver, specOrdLine): the details held for an order carry the greatest exchange timestamp delivered so far for that order among its open reports "
    "(with a value delivered with that timestamp), or the order is not held - 'not held' being admitted only once a terminal report for the order was delivered. The code violates this on histories "
    "open report t=5; terminal report; stale open report t=2: the finished order is tracked again with the OLDER details ((Entry::Vacant, Some(update)) => insert, order/mod.rs: no memory of finished "
    "client order ids). Signature clause=ord_resurrected; Lean: C09.order_details_roll_back_witness, C01.resurrection_witness; the positive theorems (C09.order_details_episode_register, "
    "order_details_carry_max_within_episode) hold per tracking episode",
    "the property constrains the held TIME (greatest delivered) and that the held VALUE was delivered with that time; which of several equal-time values is kept (balance/orders: last, trade/L1: first) is modelled and corresponded but not demanded by the spec",
]
SOURCE_FILES = ["barter/src/engine/state/asset/mod.rs", "barter/src/engine/state/instrument/data.rs", "barter/src/engine/state/order/mod.rs", "barter/src/engine/state/mod.rs",
                "barter-execution/src/balance.rs", "barter-integration/src/snapshot.rs", "barter/src/statistic/summary/asset.rs", "barter-data/src/books/mod.rs",
                "barter-data/src/subscription/book.rs", "barter-data/src/subscription/trade.rs", "barter-data/src/event.rs",
                "barter-execution/src/order/mod.rs", "barter-execution/src/order/state.rs", "barter-execution/src/order/request.rs", "barter-execution/src/order/id.rs",
                "barter-execution/src/error.rs", "barter-instrument/src/lib.rs"]


def signature(ops, k, key, impl_line, spec_line):
    """open-order keys `ord<i>_<c>`: a failure in which the implementation HOLDS details for an order although a
    terminal report for that (instrument, client order id) was delivered earlier in the case (a finished order
    tracked again by a stale open report, with details older than the greatest delivered) is `clause=ord_resurrected`;
    every other failure of an order key is `clause=ord_details`; other keys keep the default `clause=<key>`."""
    import re
    m = re.match(r"ord(\d+)_(\d+)$", key)
    if not m:
        return None
    i, c = m.group(1), m.group(2)
    finished = False
    delivered = []  # exchange timestamps delivered for this order so far (open reports and Cancelled reports)

    def num(x):
        try:
            return int(x)
        except ValueError:
            return None

    def full(x):
        # filled == order quantity (every order of this check has quantity 10)
        try:
            from fractions import Fraction
            return Fraction(x) == 10
        except (ValueError, ZeroDivisionError):
            return False

    for op in ops[: k + 1]:
        t = op.split()
        if not t:
            continue
        if t[0] == "ord" and len(t) >= 6 and t[1] == i and t[2] == c:
            delivered.append(num(t[4]))
            if full(t[5]):
                finished = True  # an open report with nothing left to fill is the exchange's word that the order is done
        elif t[0] == "ordx" and len(t) >= 5 and t[1] == i and t[2] == c:
            finished = True
            if t[3] == "Cancelled":
                delivered.append(num(t[4]))
        elif t[0] == "acct":
            j = 1
            while j < len(t):
                if t[j] == "B":
                    j += 5
                elif t[j] == "O":
                    if t[j + 1 : j + 3] == [i, c]:
                        delivered.append(num(t[j + 4]))
                        if full(t[j + 5]):
                            finished = True
                    j += 6
                elif t[j] == "X":
                    if t[j + 1 : j + 3] == [i, c]:
                        finished = True
                        if t[j + 3] == "Cancelled":
                            delivered.append(num(t[j + 4]))
                    j += 5
                else:
                    break
    held = impl_line.split()[1:] not in ([], ["none"]) and impl_line != "<missing>" and impl_line != "panic"
    # the known finding: a FINISHED order is held again with details whose timestamp is not the greatest delivered
    hm = re.search(r"[OC]\((\d+),(-?\d+),", impl_line)
    held_t = int(hm.group(2)) if hm else None
    older = held_t is not None and any(d is not None and d > held_t for d in delivered)
    if finished and held and (older or held_t is None):
        return "clause=ord_resurrected"
    return "clause=ord_details"


PREBUILD = [["python3", "tools/rust2lean_sm.py", "--require", "drawdown,pnl_returns,registers,orders"]]
CLAIM = True
TECHNIQUE = "Lean 4: generic guarded-register lemma (fold of guarded updates holds a delivered message of maximal timestamp) by induction over delivery lists, permutation invariance via List.Perm, instantiated for balances / last trade / L1 / open orders (through the C01 refinement); correspondence through EngineState entry points"
LEVEL_TEXT = ("Proof. lean/BarterModel/Props/C09.lean: for every finite delivery list (any order, any repetition) the register holds a message that was delivered and whose timestamp is the "
              "greatest delivered (carries_max, carries_max_from), the held timestamp is invariant under permutation of the deliveries (perm_invariant), an older message changes nothing "
              "(older_never_overwrites), duplicates are idempotent; instantiated for asset balances incl. full account snapshots item by item (balance_routed, full_snapshot_item_by_item, "
              "balance_carries_max), last traded price (trade_register, trades_carry_max), top of book (l1_register, l1_carries_max) and open-order details via the C01 model "
              "(open_reports_register). Unbounded in the number of messages; the suite tests four hand-picked balance cases.")
LEVEL_NOTE = ("Trusted: Lean kernel; axioms propext/Classical.choice/Quot.sound; hand-written register model tied to the code by sampled correspondence (400 quick / 20k random + "
              "4x9330 exhaustive thorough). Hypotheses: L1 payload time = event time; finite prices; times after the epoch. "
              "Additionally tied by translation: AssetState::update_from_balance and DefaultInstrumentMarketData::{price, process} (with the structs and helpers they use) are regenerated from the current source on every run by tools/rust2lean_sm.py (Generated/Machines2.lean) and proved equal to the register model for all states and messages (state_machine_agrees_with_source; Decimal::from_f64 stays an arbitrary parameter, the L1 arm carries the epoch precondition); the translator and its prelude are trusted for that tie. "
              "The open-order guards of order/mod.rs are tied by translation too: the four entry points of Orders are regenerated (Generated/Machines3.lean, group orders; the FnvHashMap and its Entry API read through the translator's explicit map vocabulary) and proved equal to the Orders model for all tables and inputs (map_machine_agrees_with_source).")
