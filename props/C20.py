N = {"quick": 20, "thorough": 300}
EXHAUSTIVE = {"quick": False, "thorough": False}
SEARCH_THOROUGH = False
RULE = ("each case = one synthetic in-memory dataset (1-3 instruments, 1-12 / 13-60 / 200-800 / 1000-2000(4000) trade Items, few distinct prices, plus MarketStreamEvent::Reconnecting markers: "
        "1-3 before the first Item in half of the cases, scattered between Items in a third, 1-2 after the last Item in a third), 1-3 strategy "
        "parameterisations (passive, or a plan of 1-4 market orders triggered by the count of market events: first event, last event, colliding triggers, "
        "quantities beyond the balance) and 2-4 `run n w` ops: n in {1,2,8,32} backtests through the real barter::backtest::run_backtests / backtest on a tokio "
        "runtime with w in {0 = current-thread,1,4,8} workers, then every backtest again alone; a recording GlobalData + InstrumentDataState + OnDisconnectStrategy (one per-engine log) capture what each engine saw, markers included. "
        "Every 4th case serves its dataset (3-12 Items + markers) through the harness's own BacktestMarketData whose stream sleeps 0 / 100 / 700 / 3000 ms of tokio time before every event "
        "(total virtual duration 0 - 40 s) on a paused, auto-advancing current-thread runtime (`data_slow`); model and spec treat it as `data` (pacing = scheduling). "
        "The committed corpus (corpus/C20/paced.ops, corpus/C20/fills_lost.ops, corpus/C20/markers.ops: markers at the head / middle / tail, marker-only dataset) runs first; its 4000-event case makes the known finding show on practically every run "
        "(alone on a current-thread runtime is always flat, 2 backtests on 4 workers see the first order's fill). "
        "LONG datasets (`longdata n k rp ro pm tm`: n stream events given by a formula that harness and Lean driver both compute - Reconnecting marker iff rp>0 and pos%rp==ro, else trade Item pos on "
        "instrument (pos+pos/3)%k at price 50+50*inst+pos%pm, Sell iff pos%3==1, exchange time 1+pos*tm ms; 2-3 instruments; markers none / every 7th / 64th / 1000th / on the multiples of 4096 / before the multiples of 1024): "
        "every run adds cases L<n> with n = 8193, 20000 and one of {1,2,1023,1024,1025,4095,4097,8191,8192,16385,65537} in the quick tier and ALL of {1,2,1023,1024,1025,4095,4097,8191,8192,8193,16385,20000,65537} in the thorough tier, "
        "1-2 plans of 3-6 market orders triggered on the first / middle / last Item and within 2 Items of the block boundaries 1024 / 4096 / 8192 / 16384 / 65536, each `run 1 w` (alone, w in {0,1,4}) and `run m w` with m in 2..4 concurrent "
        "backtests over the same shared data (w in {1,4,8}; thorough also w = 0); corpus/C20/long_dataset.ops holds three of them (20000, 20000 with markers ON the boundaries, 8193). `run` then prints DIGESTS instead of id lists: "
        "`lseen b n= items= R= order= dups= skipped= last= h=` (stream events / Items / markers processed, `ok` or the first index at which the processed stream differs from the dataset, Items behind the dataset cursor or surplus markers, "
        "positions jumped over or never reached, last position reached, rolling hash of the CONTENT - id, instrument, price, side, exchange time - of everything processed), `linst b j n= h= px=` (per instrument: Items, hash of their ids, last price), "
        "`lreqs b ...` (the requests, with the prices read: an event fed twice or dropped shifts the Item count and with it every later request), `own`, `alone` as before. "
        "INPUT-DOMAIN families (own PRNG stream; hand cases in corpus/C20/dom_inputs.ops): cases x<n> (one per 5 random cases) = small datasets whose Items are of EVERY DataKind (`i:p:K`: trade buy / sell / amount 0, "
        "OrderBookL1, order book snapshot / update, candle, liquidation - all carry the dataset position and a price), exchange times 0 / negative (before the engine start and the initial balance time) / all equal / decreasing "
        "together with TRADING plans, plan quantities that fit the balances exactly or exceed them by one (sell 99 / 100 / 101 of base 100; buy 2000 / 2001 @ 50, 1000 / 1001 @ 100, 1960 / 1961 @ 51 of quote 100000), every eighth case an "
        "EMPTY dataset (MarketDataInMemory::new panics: `panic`), every eighth a `run 0 w`; cases LX<c>_<n> (2 quick / 12 thorough, n in {3,257,2049,4097}) = longdata with ONE instrument, tm = 0 (one exchange time for the whole "
        "dataset), pm = 1 (one price per instrument), every other element a marker (rp = 2, marker first / Item first) and rp = 1 (markers only: `panic`). "
        "TRACKED-BUT-NOT-TRADED exchanges (`tracked t x` before the dataset op: the last t of its k instruments live on x exchanges - Okx, Kraken - for which the backtest gets NO ExecutionConfig, "
        "MultiExchangeTxMap = None; t = k: the `executions` list is EMPTY; markers name their exchange: `R` traded, `R1`, `R2`; in `longdata` the markers take turns over the exchanges): every run adds, from an own PRNG stream, cases T<n> "
        "(5 quick / 20 thorough: 2-4 instruments, 1-2 tracked on 1-2 untraded exchanges, every fifth case ALL instruments tracked with passive strategies; 3-40 or 200-600 Items, half of them of tracked instruments, markers of every exchange "
        "before / between / after the Items, always one Item of a tracked instrument and one marker of an untraded exchange; every sixth paced `data_slow`) and TL<n> (2 / 6: `longdata` of 257 / 4097 / 8193 / 20000 events), "
        "1-3 plans (passive, or 1-4 market orders on TRADED instruments only, triggered by the count of Items of ALL instruments), `run 1 w` and `run m w` with m in {2,3,4,8}; corpus/C20/tracked_exchange.ops holds five of them. "
        "`seen` / `inst` / `lseen` / `linst` cover all instruments and all exchanges' markers (`seen` prints `R` / `R1` / `R2`; `lmark b c0 .. cx` = disconnect notices per exchange for long datasets). "
        "SET-UP SHAPES (`cfg x o r u` after `tracked`, before the dataset op; own PRNG stream; corpus/C20/cfg_shapes.ops): cases G<n> (6 quick / 24 thorough: `data`, 3-40 or 200-600 Items) and GL<n> (2 / 6: `longdata` 257 / 4097 / 8193) with "
        "x = 1-3 TRADED exchanges (BinanceSpot, Bitfinex, Coinbase: one mock ExecutionConfig each, the 2-4 instruments spread block-wise over them, so an exchange may hold two instruments; a third of the cases also `tracked 1 1`), "
        "o = the `executions` list in exchange-index order / REVERSED, r = risk_free_return 0 for all / 0.05, 0, -0.02 by backtest / the same with every BacktestArgsDynamic::id = `dup`, "
        "u bit 0 = ONE Arc<BacktestArgsConstant> shared by every run_backtests / backtest call of the case (all `run` ops, concurrent and alone) instead of a fresh one per call, bit 1 = a single backtest goes through run_backtests instead of backtest(); "
        "plans of 2-4 orders that trade the LAST and the FIRST traded exchange from the first Items on (quantity 1-3, sometimes 5000 = refused). In these cases `own` also compares the summary's id, risk_free_return and Sharpe / Sortino / Calmar ratios with those of "
        "this backtest's arguments over its own feed, and `acct b 1` states that every account event processed comes from the backtest's own execution side (snapshot of a configured exchange, fill of an own request, no failed affordable order). "
        "A case is distinct by the SHA-1 of its op lines and non-trivial when the observation blocks differ")
ASSUMPTIONS = [
    "MarketDataInMemory datasets of Items (any DataKind; the random and long families use trades only) and Reconnecting markers with at least one Item (MarketDataInMemory::new panics otherwise - empty and marker-only datasets; harness, model and spec all report `panic`); 0-3 TRADED exchanges (one mock execution link each, all with the SAME initial balances per asset - the model's exchange has one balance sheet, base 100 / quote 100000, and a plan's quantities are 1-100 or beyond every balance, so that a refusal does not depend on which exchange's quote balance is charged; none when every instrument is tracked-only; more than one only after `cfg x ..`) plus 0-2 tracked-but-not-traded exchanges without ExecutionConfig, zero fees, latency_ms = 0; strategies send requests for instruments of the traded exchange only (a request to an exchange without link is another error path of the engine) (fees incl. rebates and latencies are C20E's inputs); initial balances fixed (base 100, quote 100000: Model/Backtest.initBals), no initial position; integer prices and quantities",
    "trading enabled from the start and never disabled; no Command / TradingStateUpdate is sent during a backtest (an engine_state with TradingState::Disabled is a legal BacktestArgsConstant: the strategy is then never consulted and the harness's per-backtest sink, filled from generate_algo_orders, stays empty - not generated, listed as open in the configuration-shape audit)",
    "summary_interval = Daily and DefaultRiskManager in every case; engine_state.time_engine_start = the time of the initial balances; no pre-existing positions / orders in the initial engine state (EngineStateBuilder offers none)",
    "the engine state handed to the backtests already carries the exchange's initial balances (as in the repo's example config), so the initial account snapshot is idempotent",
    "the engine is an arbitrary deterministic function of its state and event (strategy, risk manager, recorders included); a strategy with interior randomness or wall-clock reads is outside the model",
    "N concurrent backtests share nothing mutable (Arc'd dataset / configuration are read-only, no global state): assumed by the model, probed only by the correspondence run",
    "`isolation` (with isolation_summary / isolation_others_irrelevant) holds BY CONSTRUCTION of the product system (review C20-1): the model of N concurrent backtests is a list of N machines in which a global action steps exactly one component, so the theorem is a list-update lemma (List.modify at index i commutes with projection to i); it states what sharing nothing implies and is not evidence that the Rust program shares nothing - that is the previous assumption",
    "a backtest whose engine STOPS ON A FATAL ERROR is outside the model's isolation statement (review C20-2): in the code System::shutdown_after_backtest then panics (`expect(\"Engine cannot drop Feed receiver\")`: the engine task has dropped the feed receiver), the panic unwinds through try_join_all and takes the whole run_backtests batch - every other, healthy backtest included - with it; the model lets such a backtest end on its own (consumes_all only says its processed events are a prefix) (not in the model; recorded in DESIGN 13.6 from a racy probe, not in the corpus)",
    "tokio task scheduling, thread interleavings and the unbounded channels' FIFO order are represented by an arbitrary action list; fairness (every backtest eventually finishes) is not proved",
]
SOURCE_FILES = ["barter/src/backtest/mod.rs", "barter/src/backtest/market_data.rs", "barter/src/system/mod.rs",
                "barter/src/system/builder.rs", "barter/src/engine/run.rs", "barter-data/src/streams/reconnect/stream.rs"]
CLAIM = True
TECHNIQUE = ("Lean 4: one backtest as a scheduler-driven transition system (forwarders, FIFO feed, engine task, shutdown sender) over an ABSTRACT engine and exchange; "
             "invariants by induction over arbitrary action lists (consumption / own-engine / account conservation), product of N machines with projection of global schedules "
             "(isolation), simulation to the sequential market-only run for account-insensitive views; correspondence of the model with the real run_backtests on multi-thread runtimes")
LEVEL_TEXT = ("Proof (partial by nature). Lean theorems (lean/BarterModel/Props/C20.lean) for EVERY schedule, engine (strategy/risk/recorders), exchange, dataset and number of "
              "concurrent backtests: consumes_all + consumes_all_before_shutdown + shutdown_after_forwarder (the engine's processed market events are always a prefix of the dataset; "
              "if it stopped on Shutdown rather than on a fatal error they are exactly the dataset, in order, once, all before the single final Shutdown), summary_own_engine (the summary "
              "is a function of a fresh copy of the shared state fed this backtest's own history), isolation / isolation_summary / isolation_others_irrelevant (under any global schedule "
              "backtest i ends exactly as when run alone under its projection), market_view_schedule_independent (+ concrete_market_view for the driver's engine: recorded market sequence, "
              "prices and the requests of a strategy that ignores execution responses do not depend on the schedule at all). "
              "NOT proved because FALSE of the model that mirrors the code: the property's last clause (same fills / final positions / balances / realised PnL concurrently and alone). "
              "account_view_schedule_dependent + fills_lost_witness prove the negation on a 3-event dataset with a buy-once strategy: Shutdown is enqueued when the market forwarder has "
              "finished enqueueing, not when execution responses are back, so in-flight fills are dropped; drained_account_events_partial is the part that holds (account events come only "
              "from the backtest's own execution side, none lost while the engine runs). The real code shows the same on every run of the correspondence (signature clause=alone/strategy=trading). "
              "OS/tokio scheduling, Arc sharing and the absence of hidden global state are facts about the Rust program that the model assumes (machines share nothing) and only the "
              "correspondence run (1/2/8/32 backtests on 0/1/4/8 workers vs each alone) probes.")
LEVEL_NOTE = ("Trusted: Lean kernel; axioms propext/Classical.choice/Quot.sound only; the hand-written model (execution manager + mock exchange + response sleeps merged into one step whose outputs may be "
              "delivered in any order); harness (recording GlobalData/InstrumentDataState, plan strategy writing to a per-backtest sink, synchronous replay of the observed feed through a fresh real Engine for `own`), "
              "driver, orchestrator. Observations that depend on the tokio schedule are compared as the model's set of possible values ({0|1}); the spec demands 1. Fairness/termination not proved. "
              "Long datasets (1 - 65537 events, formula-defined, around and beyond powers of two / block sizes) are observed through digests computed by the harness from the engine's own log (dataset cursor, first differing index, content hash); "
              "the model side folds a digesting engine over the formula (long_digest_refines_recording: it is the digest of what the list-recording engine records; long_digest_schedule_independent: under every schedule; "
              "long_digest_of_dataset / long_digest_ok_iff_dataset: the digest is clean exactly when the processed stream is the dataset), the spec states n / order=ok / dups=0 / skipped=0 / hash / requests from the op alone. "
              "The theorems never bound the dataset length (ds : List mu arbitrary); the fills / positions / balances / PnL of a trading strategy stay schedule dependent on long datasets too (same known finding), so what pins the "
              "summary there is `lreqs` (what the strategy decided, at which prices) + `own` + `alone`. "
              "Execution links: the model's market forwarder never looks at the execution side, so market_view_independent_of_execution_links / consumes_all_whatever_the_links state that the engine is fed the whole dataset - the events of exchanges "
              "WITHOUT execution link included (`tracked t x` cases; linkedExchange = an execution side that never answers requests for unlinked exchanges; an empty `executions` list = no link at all) - and that the recorded market view is the same for any two sets of links. "
              "Honesty notes (independent review C20-1/2): `isolation` is true by construction of the product system (a list-update lemma over N machines that share nothing), so its content is the "
              "assumption that the Rust backtests share nothing mutable, which only the correspondence run probes; and a backtest whose engine stops on a fatal error makes shutdown_after_backtest panic "
              "(`Engine cannot drop Feed receiver`), which unwinds try_join_all and aborts the whole run_backtests batch - isolation is broken in the code there, not in the model (not in the corpus either).")


def _strategy_class(ops, k, impl_line):
    """class of the strategy of the backtest named in an observation line of op k"""
    strats = [o.split()[1:] for o in ops if o.startswith("strat")]
    try:
        b = int(impl_line.split()[1])
    except Exception:
        return "unknown"
    if not strats:
        return "unknown"
    plan = strats[b % len(strats)]
    return "passive" if plan == ["-"] else "trading"


def signature(ops, k, key, impl_line, spec_line):
    if key == "alone":
        # `X`: the two runs differ in a way the known finding (account events dropped after Shutdown) does not
        # explain - different market view, or account-event sequences that are not prefixes of one another
        if impl_line.split()[-1:] == ["X"]:
            return "clause=alone/unexplained"
        return "clause=alone/strategy=" + _strategy_class(ops, k, impl_line if impl_line != "<missing>" else spec_line)
    # tracked-but-not-traded exchanges (`tracked t x`): the market-side clauses carry the suffix
    trk = "/tracked_exchange" if any(o.startswith("tracked") for o in ops) else ""
    if key in ("seen", "inst"):
        return "clause=consumes_all/" + key + trk
    if key == "lmark":
        return "clause=consumes_all/long_dataset/lmark" + trk
    if key in ("lseen", "linst", "lreqs"):
        # long dataset (`longdata`): which figure of the digest is off
        def kvs(line):
            return dict(t.split("=", 1) for t in line.split()[2:] if "=" in t)
        if key == "lseen":
            a, b = kvs(impl_line), kvs(spec_line)
            if impl_line == "<missing>" or not a:
                return "clause=consumes_all/long_dataset/missing" + trk
            if a.get("dups") != b.get("dups"):
                return "clause=consumes_all/long_dataset/duplicated" + trk
            if a.get("skipped") != b.get("skipped") or a.get("n") != b.get("n"):
                return "clause=consumes_all/long_dataset/skipped" + trk
            if a.get("order") != b.get("order"):
                return "clause=consumes_all/long_dataset/order" + trk
            return "clause=consumes_all/long_dataset/content" + trk
        return "clause=consumes_all/long_dataset/" + key + trk
    if key == "own":
        return "clause=summary_own_engine" + ("/cfg" if any(o.startswith("cfg") for o in ops) else "")
    if key == "acct":
        return "clause=summary_own_engine/account_events_own"
    return "clause=" + key

# further models / theorems / correspondences for code around this property (see DESIGN.md §13.6)
SUBCHECKS = ["C20K", "C20S", "C20E"]
