N = {"quick": 400, "thorough": 20000}
EXHAUSTIVE = {"quick": False, "thorough": True}
RULE = "tbd"
ASSUMPTIONS = []
SOURCE_FILES = ["barter-execution/src/exchange/mock/mod.rs", "barter-execution/src/exchange/mock/account.rs",
                "barter-execution/src/client/mock/mod.rs", "barter/src/execution/builder.rs"]
CLAIM = True
TECHNIQUE = "tbd"
LEVEL_TEXT = "tbd"
LEVEL_NOTE = "tbd"
