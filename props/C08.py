N = {"quick": 400, "thorough": 20000}
EXHAUSTIVE = {"quick": False, "thorough": True}
RULE = ("random cases: a configuration (latency in {0,1,2,7,100,101} ms, fee in {0,0.001,0.01,0.1,0.25,1} and occasionally -0.01, 1-4 assets with "
        "balances 0 / small / 2-3 decimal places / occasionally negative, 0-3 instruments over those assets incl. base = quote) followed by up to 25 (quick) / "
        "60 (thorough) requests. 70 % of the cases go through MockExecution + MockExchange::run on a paused-clock tokio runtime with an injected client clock "
        "(open / snap / balances / orders / trades since / cancel; monotone and non-monotone request times), 30 % call MockExchange::open_order and "
        "account_snapshot directly; a quarter of the direct cases are ill-formed (an instrument asset without balance, or total != free) and end at the first "
        "order that can panic. Orders: buy/sell, market 90 % / limit 10 %, known / unknown instrument, prices incl. 0 and negative, quantities incl. 0, negative "
        "and 3 decimal places. Thorough additionally enumerates every sequence of length <= 4 over 7 request symbols (6 for direct) on one instrument in both "
        "modes (4 356 cases). Every 10th random case is of the LARGE magnitude class (prices up to 1e6 with 2 decimals, quantities up to 1e4 with 3 decimals, balances up "
        "to 1e12: accepted notionals far above 1e4), every 10th of the SMALL class (prices / quantities / balances between 1e-9 and 1e-2, 6-9 decimals); both draw the fee "
        "from {0, 0.001, 0.0025, 0.075, 0.333, 0.5, 1, 1.5, 2, 5, -0.5, -2}; all classes stay inside what rust_decimal computes exactly (products of at most 20 significant "
        "digits and 18 decimals). INPUT-DOMAIN family (a quarter as many cases again, own PRNG stream, ids d<n>): the generator keeps the ledger and places orders EXACTLY at the "
        "funds boundary - the largest affordable quantity free / (price * (1 + fee)), that plus / minus one unit in the last place (1e-8 .. 1), its negative, its half - on both sides with fees "
        "whose 1 + fee has a terminating reciprocal (0, 0.25, 1, -0.5, 0.6; also 0.001, -1, -2 without boundary orders); every time in force (ioc / fok / day / gtc / gtc post-only, 9th op "
        "argument, observed as `echo_tif`) on market and limit orders; strategies from 2 and client order ids from 3 values (repeated ids, also across instruments); request times at 1.7e12 ms, "
        "before the epoch and across a day boundary, a step back of 1 ms; latencies up to 60 001 ms; `trades since` exactly at / one ms around a fill's exchange time or far before everything; "
        "up to 8 assets and 6 instruments. CONFIGURATION-SHAPE family (a quarter as many cases again, own PRNG stream, ids cfg<n>; the mode token of `init` carries the shape "
        "`:<m|b|k>:<tok>.<tok>...`): the exchange id the mock stands for is Mock / BinanceSpot / Kraken (config, snapshot, instruments, client, request keys; every exchange id that comes back - "
        "snapshot, events, response keys, ExchangeOffline - is compared with it and a difference printed as `exch-mismatch`), the instruments handed to MockExchange::new are spot / perpetual / "
        "future / option with contract size 1 / 10 / 0.01, a settlement asset that is the quote, the base, a third asset or one WITHOUT balance, quoted in the underlying quote or in kind, with or "
        "without an InstrumentSpec (large minima, asset / contract / quote quantity units); accounts WITHOUT any balance (0 assets, 0 instruments); up to 5 assets and 4 instruments. The model "
        "checks the shape's syntax and ignores its content (no path of the exchange reads more than `underlying`). A case is distinct by the SHA-1 of its op lines and non-trivial when the implementation's observation blocks differ at least once")
ASSUMPTIONS = [
    "configuration well formed: every initial balance has total = free and both assets of every configured instrument have a balance "
    "(otherwise MockExchange::open_order panics on its own assert_eq!/expect; model and harness both report `panic`, the spec is silent)",
    "instrument kind, contract size, settlement asset, quote convention and InstrumentSpec of a configured instrument are NOT looked at: the spent asset is the underlying quote (buy) / "
    "base (sell) and the amount price x |q| x (1 + fee) resp. |q| x (1 + fee) for derivatives too (as the code does; generated since the configuration-shape audit); the settlement asset "
    "needs no balance",
    "the initial account snapshot carries no orders (the exchange never creates any: orders_open / instruments of a snapshot stay empty)",
    "asset and instrument names are distinct (hash-map keys); initial balances >= 0 only for the non_negative theorem",
    "'quantity' in the required amounts is the magnitude |q| (the code takes quantity.abs()); fee percentage, prices and quantities are otherwise arbitrary",
    "exact rational arithmetic (rust_decimal rounding/overflow not modelled; generated decimals keep + - x exact)",
    "a subscriber exists on the broadcast channel and it does not lag (capacity 256)",
]
SOURCE_FILES = ["barter-execution/src/exchange/mock/mod.rs", "barter-execution/src/exchange/mock/account.rs",
                "barter-execution/src/client/mock/mod.rs", "barter/src/execution/builder.rs",
                "barter-execution/src/error.rs", "barter-execution/src/balance.rs", "barter-execution/src/trade.rs", "barter-execution/src/order/mod.rs",
                "barter-execution/src/order/state.rs", "barter-execution/src/order/request.rs", "barter-execution/src/order/id.rs",
                "barter-instrument/src/lib.rs", "barter-instrument/src/instrument/mod.rs", "barter-instrument/src/asset/name.rs", "barter-instrument/src/instrument/name.rs"]


def signature(ops, k, key, impl_line, spec_line):
    """clause of the property that failed + discriminating class of the request"""
    op = ops[k].split() if k < len(ops) else ["?"]
    mode = ops[0].split()[1] if ops and len(ops[0].split()) > 1 else "?"
    if ":" in mode:
        # configuration shape `<mode>:<exchange>:<instrument tokens>`: class = mode + the instrument kinds present
        parts = mode.split(":")
        kinds = "".join(sorted({t[0] for t in parts[2].split(".") if t})) if len(parts) > 2 else ""
        mode = "%s+shape(%s,%s)" % (parts[0], parts[1] if len(parts) > 1 else "?", kinds or "-")
    cls = op[0]
    if op[0] == "open" and len(op) >= 5:
        cls = "open_%s_%s" % ({"B": "buy", "S": "sell"}.get(op[3], "?"), {"M": "market", "L": "limit"}.get(op[4], "?"))
    clause = {"resp": "accept_iff_funds", "open": "fresh_id", "notif": "one_balance_one_trade_notification", "nbal": "exact_debit",
              "ntrade": "one_fill", "ntrade_time": "one_fill", "bal": "ledger", "trades": "trade_query", "trade": "trade_query"}.get(key, key)
    return "clause=%s/op=%s/mode=%s" % (clause, cls, mode)


CLAIM = True
TECHNIQUE = ("Lean 4: case analysis of open_order into its six paths, state invariants (well-formedness, non-negativity, id sequence) by induction over "
             "request histories, and a refinement invariant to a history-only ledger specification (balance = initial - debits of the accepted orders); "
             "correspondence of the model with MockExchange::open_order / account_snapshot called directly and with MockExecution + MockExchange::run")
LEVEL_TEXT = ("Proof. Lean theorems over the mock-exchange model (lean/BarterModel/Props/C08.lean), all full strength, for every configuration, state and request "
              "history (unbounded), any fee percentage, price and quantity: accept_iff_funds / step_accept_iff_funds (an order is accepted iff it is a market order on a "
              "known instrument and the spent asset - quote for a buy, base for a sell - holds at least price*|q|*(1+fee) resp. |q|*(1+fee); limit_rejected, "
              "unknown_instrument_rejected, rejected_iff_not_funds); exact_debit, others_untouched, rejected_untouched, step_untouched (exactly that asset is lowered by "
              "exactly that amount, everything else and every non-accepted request leaves balances, trades and the id counter alone); non_negative (no balance ever "
              "negative from non-negative initial balances, no other hypothesis); one_fill, no_fill, ids_fresh (one trade per accepted order, trade id = order id = "
              "counter, ids 0..n-1 hence distinct, fees = fee * price * |q| in quote, exactly one balance then one trade notification; none on rejection); refines_spec, "
              "responses_refine, queries_refine, direct_refines (after any history the ledger, the recorded trades, every order answer, snapshot, balance and "
              "trades-since answer equal the history-only specification computed from the accepted orders alone); reach_wf, never_panics. No `_partial` theorem. "
              "The model is tied to the code on every run by executing the same request sequences against the real MockExchange, directly and through "
              "MockExecution + MockExchange::run.")
LEVEL_NOTE = ("Trusted: Lean kernel; axioms propext/Classical.choice/Quot.sound only; the hand-written model (tied by sampled correspondence: 400 quick / 20k random + "
              "4 356 enumerated short sequences thorough); harness and driver; tokio paused clock. Hypotheses: well-formed configuration (total = free, instrument assets "
              "have balances - the exchange's own assert/expect; reach_wf shows they persist), initial balances >= 0 for non_negative only. Quantity means |q|. "
              "Decimal rounding/overflow, broadcast lag/no-subscriber, request-loop shutdown and the unanswered cancel request (response sender dropped; modelled as "
              "`dropped`, not part of this property) are outside the theorems. Buying does not credit the base asset and selling does not credit the quote asset in "
              "the code; the property does not ask for it and the theorems state exactly that only the spent asset changes. "
              "Additionally tied by translation: MockExchange::{open_order, validate_order_kind_supported, find_instrument_data, order_id_sequence_fetch_add, update_time_exchange}, build_open_order_err_response and AccountState::{balance_mut, update_time_exchange, trades, ack_trade} are regenerated from the current source on every run by tools/rust2lean_sm.py (Generated/Machines3.lean, group mock; the FnvHashMaps read through the translator's explicit map vocabulary, format! as the list of its arguments, the channel fields and the async request loop left out) and proved to simulate the model up to the order of the maps for all related states and requests under WF (map_machine_agrees_with_source); the translator, its prelude and the stated meaning of the map vocabulary are trusted for that tie.")
PREBUILD = [["python3", "tools/rust2lean_sm.py", "--require", "mock"]]
SUBCHECKS = ["C08C"]
