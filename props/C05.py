N = {"quick": 500, "thorough": 30000}
EXHAUSTIVE = {"quick": False, "thorough": True}
RULE = ("random event histories for 1-2 configured instruments (plus items for a non-configured key and reconnecting notices): 1-40 events, "
        "each a Snapshot (distinct prices, non-zero amounts, shuffled) or an Update with 0-12 (thorough: 0-16) unsorted levels per side over a grid of "
        "2-8 (thorough: 2-12) prices at 5 different scales, 10/30/60 % zero amounts (written 0, 0.0, 0.000), duplicates of a price inside one update, "
        "one-sided updates, repeated / decreasing sequence numbers; every event is built with the real OrderBook::new and applied with the real "
        "OrderBook::update, and the whole stream of each case is replayed through the real OrderBookL2Manager::run over an OrderBookMapMulti. "
        "thorough additionally enumerates, for bids and for asks and through `upd` and through `updr`, every sequence of <= 2 updates with <= 2 levels each over "
        "{front, present, middle, back} x {delete, set} from a two-level book (21 612 cases). "
        "Input-domain family (one `d` case per five random ones, own random stream; class by case index): signed - price grids below, at and above zero "
        "(also written -0), negative amounts (set, never delete; 4 decimals so that they cannot cancel a positive best amount), zero written -0 / -0.0, a "
        "price spelled with trailing zeros (100 / 100.0 / 100.00); sequence - u64 sequence numbers 0, 1, 2^32-1, 2^32, 2^53+1, 2^63-1, 2^63, u64::MAX-1, "
        "u64::MAX in any order; magnitude - prices at 1e-8 and at 1e12 with amounts 1e-8 ... 1e12 (every product within 28 digits); shaped - uncrossed and "
        "locked books (bids drawn below asks) and books one side of which never receives a level; long - sides of 100-260 levels with single upserts at "
        "front / middle / back and update lists of up to 300 levels; every class adds `depth k d` = snapshot(d) for d in {0, 1, len-1, len, len+1, 2..9, "
        "100, usize::MAX}. corpus/C05/dom_input_domain.ops holds one hand-written case per class. Configuration-shape family (one `cfg` case per ten random ones, own "
        "random stream): `init n` with n in {0, 3, 5, 8, 12} configured instruments instead of 1-2 - no instrument at all (every event is for a non-configured "
        "key, the manager runs over an empty OrderBookMapMulti) and many instruments of which only 1-3 (first / middle / last key) ever receive an event, "
        "plus the non-configured keys n and n+7; the `mgr` replay prints every configured book, so the untouched ones are compared with OrderBook::default(); "
        "corpus/C05/cfg_instrument_count.ops. A case is distinct by the SHA-1 of its op lines and "
        "non-trivial when the implementation's observation block changes at least once")
ASSUMPTIONS = [
    "every Snapshot event carries sides with pairwise distinct prices and non-zero amounts (OrderBook::new sorts but neither dedups nor drops zeros; "
    "at the excluded points the real code keeps a zero-amount level until it is deleted, and with duplicate prices binary_search_by hits an "
    "unspecified one of the equal levels so duplicates persist) - updates are unrestricted",
    "slice::binary_search_by on a strictly sorted Vec returns the position a front-to-back scan finds (documented std semantics; modelled as the scan)",
    "the sort of OrderBookSide::{bids, asks} is modelled as a stable sort - which it is since fix 911b9f8 (`sort_by`; before: `sort_unstable_by`, whose order of equal-priced levels inside one update is unspecified); the harness prints the "
    "stored levels of every event so a different order shows up as a correspondence break; all theorems about updates hold for any order",
    "exact rational arithmetic; rust_decimal rounding of the volume-weighted mid-price is compared to 1e-18; Decimal division by zero "
    "(best amounts summing to 0, only possible with negative amounts) panics in Rust and is not modelled here (the sub-check C05M models it); generated "
    "negative amounts have a non-zero 4th decimal and positive ones at most 3 decimals, so no two generated best amounts sum to 0",
    "the harness reports a sequence number or a depth that is not a u64 / usize as bad-op, and so do both drivers (>= 2^64)",
    "mid-price with one empty side: the property text does not define it; the spec follows the documented and test-pinned convention (best price of the other side)",
    "time_engine (copied verbatim from the event) is not modelled; the manager is run single-threaded over a finite stream (lock contention with readers not modelled)",
    "the arithmetic kernels the free functions mid_price / volume_weighted_mid_price and struct Level (barter-data/src/books/mod.rs) are additionally tied to the source by translation: tools/rust2lean.py regenerates their Lean definitions from the current Rust text before every build (PREBUILD) and theorem kernels_agree_with_source proves them equal to the model's definitions for all arguments; trusted there: the translator's reading of the small Rust subset it accepts (it rejects everything else) and its fixed Decimal prelude (abs, is_zero, checked_div = None exactly on a zero divisor, MAX/MIN)",
]
SOURCE_FILES = ["barter-data/src/books/mod.rs", "barter-data/src/books/manager.rs", "barter-data/src/books/map.rs", "barter-data/src/subscription/book.rs"]
PREBUILD = [["python3", "tools/rust2lean.py", "--require", "book"]]

_CLAUSE = {"seq": "sequence_of_last_event", "bids": "levels_equal_map", "asks": "levels_equal_map", "mid": "mid_price",
           "vwmid": "volume_weighted_mid_price", "snap0": "depth_snapshot", "snap1": "depth_snapshot", "snap3": "depth_snapshot",
           "snapd": "depth_snapshot",
           "book": "manager_book", "skip": "manager_skip"}


def signature(ops, k, key, impl_line, spec_line):
    op = ops[k].split()[0] if k < len(ops) else "?"
    return f"clause={_CLAUSE.get(key, key)} op={op}"


CLAIM = True
TECHNIQUE = ("Lean 4: invariant (strict order, no zero amount) by induction over event histories; refinement of upsert_single/upsert/update to point "
             "updates of a price->amount function; canonicity of the sorted representation; refinement to an executable unordered-map specification "
             "for every observable; correspondence of the model with OrderBook::{new,update,snapshot,mid_price,volume_weighed_mid_price} and "
             "OrderBookL2Manager::run")
LEVEL_TEXT = ("Proof. Lean theorems over the order-book model (lean/BarterModel/Props/C05.lean), all full strength (no _partial): for every finite history of "
              "Snapshot/Update events with arbitrary update level lists (unsorted, duplicate prices, zero amounts, absent prices) from any well-formed book, "
              "bids stay strictly descending, asks strictly ascending, no price twice, no zero amount (inv, sorted_inv, strictly_ordered); one upsert is one point "
              "update of the price->amount function - zero deletes, other amounts set, deleting an absent level leaves the list unchanged (abs_upsertSingle, "
              "delete_absent_noop, abs_upsert), hence the book denotes the fold of the events over the map (abs_run); the representation is canonical, so the "
              "book holds exactly the map's levels (canonical, holds_exactly); best bid/ask are the max/min of the support (best_bid_is_max, best_ask_is_min, "
              "no_best_iff_empty); the whole book, mid_price, volume_weighed_mid_price and snapshot(d) for every d equal those of an executable unordered-map "
              "specification written from the property text (refines_spec, refines_spec_from, snapshot_depth); sequence = that of the last applied event "
              "(sequence_last); the manager applies each instrument's items to that instrument's book only (manager_applies_per_instrument); snapshots made by "
              "OrderBook::new from distinct-price non-zero levels satisfy the hypothesis (new_wf). Unbounded in history length, level-list length and prices. "
              "The model is tied to the code by running the same histories through the real OrderBook and OrderBookL2Manager on every run.")
LEVEL_NOTE = ("Trusted: Lean kernel; axioms propext/Classical.choice/Quot.sound only; the hand-written model (binary_search_by as a scan, the stable `sort_by` of the sides as a "
              "stable sort), tied by sampled correspondence (500 quick / 30k random + 10.8k small-scope exhaustive thorough); harness, driver, orchestrator. "
              "Hypothesis: Snapshot events carry strictly ordered sides without zero amounts (guaranteed by OrderBook::new for distinct-price non-zero input; "
              "the code does not enforce it - documented precondition). Exact rationals instead of rust_decimal; time_engine and lock contention not modelled. "
              "Additionally tied by translation: the Lean definitions of the kernels the free functions mid_price / volume_weighted_mid_price and struct Level (barter-data/src/books/mod.rs) are regenerated from the current source on every run (tools/rust2lean.py) and proved equal to the model's (kernels_agree_with_source), so a change of such a kernel breaks a proof obligation directly; the translator and its Decimal prelude are trusted for that tie.")
SUBCHECKS = ["C05M"]
