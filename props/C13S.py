N = {"quick": 800, "thorough": 16000}
EXHAUSTIVE = {"quick": False, "thorough": True}
RULE = "placeholder"
ASSUMPTIONS = []
SOURCE_FILES = []
LEVEL_TEXT = "placeholder"
