N = {"quick": 800, "thorough": 16000}
EXHAUSTIVE = {"quick": False, "thorough": True}
RULE = ("cases cycle through the 8 connectors (binance, bybit, bitmex, coinbase, gateio, kraken, okx: WebSocketSubValidator; bitfinex: "
        "BitfinexWebSocketSubValidator). Each case: an instrument map of 0-3 entries over 2 channels x 3 markets (duplicate keys occur), then a "
        "list of websocket items, then `run` (1-3 runs per case, each validating from scratch over everything so far). 55 % of the cases start from "
        "a script that validates successfully (the expected confirmations in shuffled order, market payloads in between; Bitfinex: every confirmation "
        "followed by its snapshot) with 0-2 mutations (insert / delete / replace) and 0-2 items queued behind it; 45 % are free mixtures (length <= 10, "
        "thorough <= 14) of accepted / rejected responses in the venue's documented JSON shape (text or binary frames), undeserialisable payloads, "
        "ping, pong, close frame, protocol-violating frame, silences of 3/6/9/12 s, the connectors' documented success / failure example payloads; "
        "20 % of all cases get, at a random position, a silence that ends just before or just after the 10 s timeout (total 9 990-9 999 or "
        "10 001-10 010 ms) given as 1-4 consecutive `wait`s of arbitrary lengths (zero included); half of the cases end in a 12 s silence, the "
        "others in end of stream. No silence reaches 10 000 ms exactly at the end of a wait (the generator lengthens such a wait by 1 ms). "
        "Every run opens a loop-back "
        "websocket (real `connect`, real tungstenite framing) and calls the real `<Exchange::SubValidator as SubscriptionValidator>::validate` under "
        "tokio's paused clock. Thorough additionally enumerates every item list of length <= 4 over 7 symbols for Kraken with two subscriptions "
        "(2 801 lists), of length <= 3 over 7 symbols for Bybit (400) and of length <= 4 over 9 symbols for Bitfinex with two subscriptions (7 381). "
        "corpus/C13S/notable.ops (always run): silences of 9 999 / 10 001 ms split into 1-5 waits, two 9 999 ms silences around a frame, number "
        "tokens at and beyond the u64 / u32 / u8 limits, a Bitfinex channel id announced twice, duplicate map keys. "
        "A case is distinct by the SHA-1 of its op lines and non-trivial when the implementation's trace shows at least two different observation blocks")
ASSUMPTIONS = [
    "the input of a validation is the finite list of items the socket yields, silences included; the end of the list is the end of the stream "
    "(`websocket.next()` = None); serde deserialisation is exercised by the harness (real JSON through the real types) but not modelled: a frame "
    "is either a deserialised response (its validate-relevant fields) or an undeserialisable payload",
    "a transport error is followed by end of stream (tokio-tungstenite's stream is fused after an error); the validator itself ignores the error item",
    "the timeout races are decided by the op list: consecutive `wait`s are ONE silence (the harness sleeps until absolute deadlines measured from "
    "the start of the silence, so n waits last exactly their sum and the silence is rounded to tokio's millisecond timer tick once, as the validator's "
    "own `sleep(timeout)` armed at the same instant is; a relative sleep per `wait` would cost one extra tick each), and no generated silence reaches "
    "10 000 ms exactly at the end of a wait, so no item arrives in the tick in which the 10 s sleep elapses (`tokio::select!` picks at random between "
    "two ready branches)",
    "number tokens of the ops outside the Rust integer type the harness reads them into (u64: Kraken channelID, payload ids, waits, instruments, "
    "counts; u32: Bitfinex chanId and error code, Okx error code; u8: Gateio error code) are `bad-op` in the harness and in the Lean driver alike; "
    "serde's own number handling beyond that is not modelled",
    "timeout semantics: the code re-arms `sleep(timeout)` on every loop iteration, i.e. it measures each silence; `Connector::subscription_timeout` "
    "is documented as the time the validator `will wait to receive all success responses` (one deadline). The theorems are about the code's reading and "
    "relate it to the other one (deadline_ok_is_code_ok, code_timeout_is_deadline_timeout, readings_agree_within_deadline); where the two readings "
    "differ the spec driver accepts either outcome (`res {a|b}`)",
    "Gateio: the documented failure payload (`\"result\": null`) does not deserialise into GateioMessage<GateioSubResult>; the model treats it as an "
    "undeserialisable payload (as the code does), the spec driver as a failure response (as documented); the generator does not emit `docfail` for "
    "Gateio (concrete input in the report; `signature` labels it clause=documented_failure/gateio)",
    "Bitfinex: the instrument map has one entry per `channel|market` key (Map::from_iter guarantees it: ofList_wf) and a decimal channel id never "
    "equals a `channel|market` string; the statement that the returned map contains EXACTLY the confirmed ids with their instruments assumes the "
    "venue announces pairwise distinct channel ids for the confirmed subscriptions (`distinctIds`; otherwise an entry is overwritten - an instrument "
    "is lost although the validation succeeds: bfx_shared_id_loses_instrument - and the spec driver does not constrain `map`); without that "
    "assumption the theorems still give: no `channel|market` key left, every entry rightly filed (bfx_no_sub_key_left, bfx_map_within_rekeyed); "
    "`follow-up payload` = any undeserialisable message after the first confirmation, as the code counts them",
    "usize counters are Nat (no overflow); payloads are identified by small numbers; instruments are numbers",
]
SOURCE_FILES = [
    "barter-data/src/subscriber/validator.rs", "barter-data/src/exchange/mod.rs",
    "barter-data/src/exchange/binance/subscription.rs", "barter-data/src/exchange/binance/mod.rs",
    "barter-data/src/exchange/bybit/subscription.rs", "barter-data/src/exchange/bybit/mod.rs",
    "barter-data/src/exchange/bitmex/subscription.rs", "barter-data/src/exchange/bitmex/mod.rs",
    "barter-data/src/exchange/coinbase/subscription.rs", "barter-data/src/exchange/gateio/subscription.rs",
    "barter-data/src/exchange/gateio/message.rs", "barter-data/src/exchange/kraken/subscription.rs",
    "barter-data/src/exchange/okx/subscription.rs", "barter-data/src/exchange/bitfinex/subscription.rs",
    "barter-data/src/exchange/bitfinex/validator.rs", "barter-integration/src/protocol/websocket.rs",
]
TRUSTED = [
    "C13S: hand-written websocket server side of the harness (HTTP upgrade with own SHA-1/base64, unmasked frames, TIOCOUTQ delivery barrier, "
    "reset-on-close); tokio paused clock with the validator and the venue joined in one block_on future; tokio-tungstenite framing",
]


def signature(ops, k, key, impl_line, spec_line):
    ex = ops[0].split()[1] if ops and ops[0].startswith("init ") and len(ops[0].split()) > 1 else "?"
    if ex == "gateio" and "docfail" in ops:
        return "clause=documented_failure/gateio"
    return f"clause={key}/{ex}"


TECHNIQUE = ("Lean 4: refinement of the counter-threading validation loops to a history-based specification by induction over the input list "
             "(invariant: the counters summarise the consumed history), relational characterisation of Ok / Err, map re-keying invariant for "
             "Bitfinex; correspondence of the models with the real validators over a loop-back websocket under a paused clock")
LEVEL_TEXT = ("Proof (sub-check of C13). Lean theorems over models of WebSocketSubValidator::validate, the eight connectors' SubResponse validators and "
              "BitfinexWebSocketSubValidator::validate (lean/BarterModel/Props/C13S.lean). "
              "GENERIC VALIDATOR, for every input list, timeout T and expected count k, no further hypothesis: the loop computes the history-based "
              "specification (run_refines_spec); Ok iff a prefix without anything fatal holds k accepted responses, Err iff the stream ends or the next "
              "item is fatal before that (ok_iff, err_iff, ok_iff_enough_before_anything_fatal); the outcome depends only on what is consumed "
              "(unread_untouched); an error other than `ended` stays whatever follows (error_is_final); a timeout needs a silence of the full duration "
              "(timeout_only_after_silence); a success under the one-deadline reading of subscription_timeout is the same success of the code and a "
              "timeout of the code is a timeout under that reading, not conversely (deadline_ok_is_code_ok, code_timeout_is_deadline_timeout). With "
              "k > 0: a successful validation stops right after the k-th confirmation, and every payload after the first confirmation is buffered or "
              "still unread, in order (ok_stops_at_kth_confirmation, no_event_lost). For a history consumed without anything fatal that is not yet "
              "complete (`Proceeds`, count != k): the next rejected response / close frame / transport error / end of stream is reported as such "
              "(rejection_is_reported, close_is_reported). Only on inputs WITHOUT silences (`NoWaits`): deleting pings and pongs changes nothing "
              "(pings_invisible); with silences a ping is visible - every item that is not a silence restarts the timer "
              "(silence_restarts_at_every_item, for every history; witness ping_rearms_timer: two 9 s silences validate with a ping in between and "
              "time out without it). If what the code CONSUMED lasts less than T in total, a success of the code is the same success under the "
              "one-deadline reading (code_ok_within_deadline_is_deadline_ok); if the WHOLE input, unread tail included, lasts less than T, the two "
              "readings agree on every outcome (readings_agree_within_deadline). "
              "BITFINEX, for an instrument map with one entry per key (`KeysNodup`; `WF` adds that all keys are channel|market keys; Map::from_iter "
              "over such keys gives both: ofList_wf): Ok / Err characterised as above with `complete` = every subscription confirmed and as many "
              "follow-up payloads as subscriptions (bfx_ok_iff, bfx_err_iff); same verdict, buffer and unread input as the specification, returned "
              "map without duplicate keys (bfx_refines_spec, WF); after a successful validation, whatever channel ids the venue announced, no "
              "channel|market key is left and every entry is a confirmed channel id carrying an instrument that was subscribed under a key whose first "
              "confirmation announced that id (bfx_no_sub_key_left, bfx_map_within_rekeyed); ONLY IF the venue announced pairwise distinct ids for the "
              "confirmed subscriptions (`distinctIds`) does the map contain exactly these entries (bfx_map_is_rekeyed, entry clause of "
              "bfx_refines_spec) - otherwise an instrument is lost although the result is Ok (witness bfx_shared_id_loses_instrument); "
              "bfx_code_timeout_is_deadline_timeout. INSTRUMENT MAP: Map::from_iter files under a key the instrument of the last entry given for it "
              "(ofList_get_is_last_entry, ofList_mem_iff_last_entry). "
              "Definitional / bookkeeping, not results: proceeds_iff, nothing_expected, empty_map, before_first_confirmation_dropped, and the "
              "tabulations of the models' own case tables (binance/bybit/bitmex/coinbase/gateio/kraken/okx/bitfinex_accepts_iff, "
              "bybit_pong_out_of_sequence, rejection_kinds, documented_success_accepted, documented_failure_rejected, expected_responses_table). "
              "The models are tied to the code by driving the real validators through a loop-back websocket on every run.")
LEVEL_NOTE = ("Trusted: Lean kernel; axioms propext/Classical.choice/Quot.sound only; the hand-written models (tied by sampled correspondence: corpus + "
              "800 quick / 16 000 random + 10 582 exhaustive small-scope lists thorough); the harness' own websocket server side and the paused clock. "
              "Serde deserialisation is exercised, not modelled. "
              "What the oracle (spec mode) adds over the correspondence, key by key: `res`, `buf`, `consumed` come from the history-based `spec` / "
              "`specBfx`, whose judgement of a SINGLE item (what is fatal, payloads before the first confirmation are dropped, a transport error ends "
              "the stream, Bitfinex counts follow-up payloads with `==`) is the model's own case table, tied to the code by correspondence and to the "
              "loop by run_refines_spec / bfx_refines_spec, not written from an independent source; independently formulated are (i) the Bitfinex `map` "
              "= `rekey` of the `init` entries by the first confirmations (vs the loop's erase/insert; printed only under `distinctIds`), (ii) the generic "
              "validators' `map` = last entry per key of the `init` op (`specMap`, no hash-map model), (iii) Gateio's documented failure payload read as "
              "the failure response the documentation says it is (`docfail`; the code and the model time out there: clause=documented_failure/gateio, "
              "not generated), (iv) the widening `res {ok|err:timeout}` where the one-deadline reading of subscription_timeout differs from the code's. "
              "`expected` and `timeout` are copies of the code's tables in the model: CORRESPONDENCE-ONLY (impl vs model), not printed in spec mode.")
ENV_PROBE = ["probe-env"]
