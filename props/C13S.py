N = {"quick": 800, "thorough": 16000}
EXHAUSTIVE = {"quick": False, "thorough": True}
RULE = ("cases cycle through the 8 connectors (binance, bybit, bitmex, coinbase, gateio, kraken, okx: WebSocketSubValidator; bitfinex: "
        "BitfinexWebSocketSubValidator). Each case: an instrument map of 0-3 entries over 2 channels x 3 markets (duplicate keys occur), then a "
        "list of websocket items, then `run` (1-3 runs per case, each validating from scratch over everything so far). 55 % of the cases start from "
        "a script that validates successfully (the expected confirmations in shuffled order, market payloads in between; Bitfinex: every confirmation "
        "followed by its snapshot) with 0-2 mutations (insert / delete / replace) and 0-2 items queued behind it; 45 % are free mixtures (length <= 10, "
        "thorough <= 14) of accepted / rejected responses in the venue's documented JSON shape (text or binary frames), undeserialisable payloads, "
        "ping, pong, close frame, protocol-violating frame, silences of 3/6/9/12 s (sums never equal the 10 s timeout), the connectors' documented "
        "success / failure example payloads; half of the cases end in a 12 s silence, the others in end of stream. Every run opens a loop-back "
        "websocket (real `connect`, real tungstenite framing) and calls the real `<Exchange::SubValidator as SubscriptionValidator>::validate` under "
        "tokio's paused clock. Thorough additionally enumerates every item list of length <= 4 over 7 symbols for Kraken with two subscriptions "
        "(2 801 lists), of length <= 3 over 7 symbols for Bybit (400) and of length <= 4 over 9 symbols for Bitfinex with two subscriptions (7 381). "
        "A case is distinct by the SHA-1 of its op lines and non-trivial when the implementation's trace shows at least two different observation blocks")
ASSUMPTIONS = [
    "the input of a validation is the finite list of items the socket yields, silences included; the end of the list is the end of the stream "
    "(`websocket.next()` = None); serde deserialisation is exercised by the harness (real JSON through the real types) but not modelled: a frame "
    "is either a deserialised response (its validate-relevant fields) or an undeserialisable payload",
    "a transport error is followed by end of stream (tokio-tungstenite's stream is fused after an error); the validator itself ignores the error item",
    "the timeout races are decided by the op list: silences are multiples of 3 s or 12 s, so no item arrives exactly when the 10 s sleep elapses "
    "(`tokio::select!` picks at random between two ready branches)",
    "timeout semantics: the code re-arms `sleep(timeout)` on every loop iteration, i.e. it measures each silence; `Connector::subscription_timeout` "
    "is documented as the time the validator `will wait to receive all success responses` (one deadline). The theorems are about the code's reading and "
    "relate it to the other one (deadline_ok_is_code_ok, code_timeout_is_deadline_timeout, readings_agree_within_deadline); where the two readings "
    "differ the spec driver accepts either outcome (`res {a|b}`)",
    "Gateio: the documented failure payload (`\"result\": null`) does not deserialise into GateioMessage<GateioSubResult>; the model treats it as an "
    "undeserialisable payload (as the code does), the spec driver as a failure response (as documented); the generator does not emit `docfail` for "
    "Gateio (concrete input in the report; `signature` labels it clause=documented_failure/gateio)",
    "Bitfinex: the instrument map has one entry per `channel|market` key (Map::from_iter guarantees it: ofList_wf) and a decimal channel id never "
    "equals a `channel|market` string; the statement about the returned map's entries assumes the venue announces pairwise distinct channel ids for "
    "the confirmed subscriptions (`distinctIds`; otherwise an entry is overwritten and the spec driver does not constrain `map`); `follow-up payload` "
    "= any undeserialisable message after the first confirmation, as the code counts them",
    "usize counters are Nat (no overflow); payloads are identified by small numbers; instruments are numbers",
]
SOURCE_FILES = [
    "barter-data/src/subscriber/validator.rs", "barter-data/src/exchange/mod.rs",
    "barter-data/src/exchange/binance/subscription.rs", "barter-data/src/exchange/binance/mod.rs",
    "barter-data/src/exchange/bybit/subscription.rs", "barter-data/src/exchange/bybit/mod.rs",
    "barter-data/src/exchange/bitmex/subscription.rs", "barter-data/src/exchange/bitmex/mod.rs",
    "barter-data/src/exchange/coinbase/subscription.rs", "barter-data/src/exchange/gateio/subscription.rs",
    "barter-data/src/exchange/gateio/message.rs", "barter-data/src/exchange/kraken/subscription.rs",
    "barter-data/src/exchange/okx/subscription.rs", "barter-data/src/exchange/bitfinex/subscription.rs",
    "barter-data/src/exchange/bitfinex/validator.rs", "barter-integration/src/protocol/websocket.rs",
]
TRUSTED = [
    "C13S: hand-written websocket server side of the harness (HTTP upgrade with own SHA-1/base64, unmasked frames, TIOCOUTQ delivery barrier, "
    "reset-on-close); tokio paused clock with the validator and the venue joined in one block_on future; tokio-tungstenite framing",
]


def signature(ops, k, key, impl_line, spec_line):
    ex = ops[0].split()[1] if ops and ops[0].startswith("init ") and len(ops[0].split()) > 1 else "?"
    if ex == "gateio" and "docfail" in ops:
        return "clause=documented_failure/gateio"
    return f"clause={key}/{ex}"


TECHNIQUE = ("Lean 4: refinement of the counter-threading validation loops to a history-based specification by induction over the input list "
             "(invariant: the counters summarise the consumed history), relational characterisation of Ok / Err, map re-keying invariant for "
             "Bitfinex; correspondence of the models with the real validators over a loop-back websocket under a paused clock")
LEVEL_TEXT = ("Proof (sub-check of C13). Lean theorems over models of WebSocketSubValidator::validate, the eight connectors' SubResponse validators and "
              "BitfinexWebSocketSubValidator::validate (lean/BarterModel/Props/C13S.lean), for every input list, timeout and expected count: the loop "
              "computes the history-based specification (run_refines_spec); Ok iff a prefix without anything fatal holds the expected number of accepted "
              "responses, Err iff the stream ends or the next item is fatal before that (ok_iff, err_iff, ok_iff_enough_before_anything_fatal); a "
              "successful validation stops right after the k-th confirmation and leaves the rest of the socket untouched (ok_stops_at_kth_confirmation, "
              "unread_untouched); every payload after the first confirmation is either buffered or still unread, in order (no_event_lost); rejected "
              "responses, close frames, transport errors and end of stream are reported as such and finally (rejection_is_reported, close_is_reported, "
              "error_is_final); pings only re-arm the timer (pings_invisible); a timeout needs a silence of the full duration (timeout_only_after_silence) "
              "and the per-silence reading of the code is related to the documented one-deadline reading (readings_agree_within_deadline, "
              "deadline_ok_is_code_ok, code_timeout_is_deadline_timeout); per connector the accepted responses are tabulated (…_accepts_iff, "
              "documented_success_accepted, documented_failure_rejected, expected_responses_table); for Bitfinex the loop refines its specification and the "
              "returned map contains exactly the confirmed channel ids mapped to the instruments subscribed under the confirmed symbols, with no "
              "channel|market key left (bfx_ok_iff, bfx_err_iff, bfx_refines_spec, bfx_map_is_rekeyed). The models are tied to the code by driving the "
              "real validators through a loop-back websocket on every run.")
LEVEL_NOTE = ("Trusted: Lean kernel; axioms propext/Classical.choice/Quot.sound only; the hand-written models (tied by sampled correspondence: 800 quick / "
              "16 000 random + 10 582 exhaustive small-scope lists thorough); the harness' own websocket server side and the paused clock. Serde "
              "deserialisation is exercised, not modelled.")
ENV_PROBE = ["probe-env"]
