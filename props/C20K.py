N = {"quick": 400, "thorough": 6000}
EXHAUSTIVE = {"quick": False, "thorough": True}
RULE = ("random call sequences (1-20 ops quick, 1-40 thorough) on a real HistoricalClock (75 %) or on the clock of a real Engine "
        "driven through Engine::process / Engine::time (25 %): events of every EngineEvent kind (market item / reconnecting, account "
        "snapshot with 0-3 balances and 0-2 instruments x 0-3 orders in all 8 order states, balance, order, cancel ok/err, trade, "
        "command, trading-state update, shutdown), processed directly or through a clone, interleaved with time(), LiveClock.time(), "
        "busy-waits of 1 us - 1.5 ms and chrono TimeDelta truncation probes; 3-6 distinct timestamps per case placed at the offsets the "
        "code distinguishes (0, 1 ns, +-1 ms, +-1 s, +-30 s, hours) so that ties and out-of-order events dominate. Thorough additionally "
        "enumerates every sequence of length <= 4 over 11 symbols around one timestamp (16 105 sequences). Compared: the event's "
        "time_exchange(), the stored time_exchange_last and whether time_live_last_event was re-read (both through the clock's Debug "
        "impl), and for time() that the returned value is last + (w - anchor) for a wall reading w between one taken before and one "
        "taken after the call. An input-domain family (cases d<n>, one per 10 random cases, own PRNG stream) runs the same sequences around the instants the random cases "
        "(all near 1.7e18 ns) never reach: the epoch itself, +-1 ns, sub-millisecond instants, and instants BEFORE 1970 (negative nanosecond counts: -1 ms, -1 s, -1 day). A case is distinct by the SHA-1 of its op lines and non-trivial when the implementation's observation "
        "blocks differ at least once")
ASSUMPTIONS = [
    "Utc::now() is an input: the model takes every wall-clock reading as an explicit argument; the correspondence cannot control it and "
    "checks only wall-independent observations plus two-sided bounds on time() (wall clock assumed not to step backwards during a run)",
    "times are integer nanoseconds; DateTime/TimeDelta overflow (a chrono panic) is not modelled",
    "TimeDelta::num_milliseconds / num_seconds truncate towards zero (chrono 0.4.45; probed by the numms/numsec ops on every run)",
    "time_exchange_last / time_live_last_event are read through the derived Debug impl of HistoricalClock (the fields are private)",
    "clones of a HistoricalClock share one cell (Arc<RwLock>): modelled as a single owner, exercised by the evc op",
    "tracing output (debug/warn/error of the out-of-order branch) is modelled (outOfOrderSeverity) but not observed by the harness",
]
SOURCE_FILES = ["barter/src/engine/clock.rs", "barter-execution/src/lib.rs", "barter-execution/src/order/state.rs",
                "barter/src/engine/mod.rs"]
PREBUILD = [["python3", "tools/rust2lean_sm.py", "--require", "clock"]]


def signature(ops, k, key, impl_line, spec_line):
    op = ops[k].split() if k < len(ops) else ["?"]
    kind = op[1] if op[0] in ("ev", "evc") and len(op) > 1 else op[0]
    return f"clause={key}/op={kind}"


CLAIM = False
TECHNIQUE = ("Lean 4: wall clock as explicit input; step laws, invariant (stored time = running maximum) and refinement of the "
             "HistoricalClock model to a history-only spec by induction over call sequences; accessor = greatest timestamp carried "
             "by the event; conditional monotonicity of the reported time with universally quantified counter-theorems; "
             "correspondence with the real clock (bare and inside Engine::process)")
LEVEL_TEXT = ("Proof (sub-check of C20). Lean theorems over the clock model (lean/BarterModel/Props/C20K.lean), for all events, states, "
              "wall-clock readings and call histories. RESULTS: EngineEvent::time_exchange is the greatest exchange timestamp carried anywhere in the "
              "event, none iff there is none (time_exchange_is_latest_timestamp, _some_iff, _none_iff, snapshot_time_most_recent); HistoricalClock: an "
              "event at least as recent as the clock sets it, older events change nothing (accepted_event_sets_clock, older_event_is_ignored), the "
              "STORED time never decreases and is the running maximum of the history — for every history, no proviso (last_never_decreases, "
              "refines_spec, spec_last_is_max); time() = last + wall time elapsed since the anchoring event (time_is_last_plus_elapsed, "
              "time_after_history_eq_spec, time_advances_with_wall). THE REPORTED TIME IS NOT MONOTONE IN GENERAL: overtaken_event_rewinds, "
              "equal_timestamp_rewinds (an event with the same timestamp as the previous one rewinds the reported time by the elapsed wall time), "
              "submillisecond_backstep (the `>= 0` guard on the truncated millisecond count adds negative deltas down to -1 ms). "
              "reported_time_monotone holds only under `NotBehind` (no accepted event older than what the clock already extrapolated to), a proviso "
              "that is never discharged from inputs and that every feed with a REPEATED exchange timestamp processed after any wall time violates "
              "(repeated_timestamp_violates_not_behind), as does every feed slower than the wall clock (slow_feed_violates_not_behind): it is a "
              "statement about idealised replays (strictly increasing timestamps at least as fast as real time, or zero wall time: "
              "instant_replay_reports_last), not about realistic ones. DEFINITIONAL / BOOKKEEPING (rfl; listed for completeness, not results): "
              "live_clock_is_wall, live_clock_ignores_events, no_timestamp_is_ignored, non_item_events_carry_no_time, new_reads_seed. The model is "
              "tied to the code by running the same call sequences through the real clock, bare and inside Engine::process, on every run.")
LEVEL_NOTE = ("Trusted: Lean kernel; axioms propext/Classical.choice/Quot.sound only; the hand-written model (sampled correspondence: 400 quick / "
              "6 000 random + 16 105 enumerated thorough); harness and driver; chrono. The wall clock is not controllable: time() is bounded "
              "between two readings, never compared exactly; on the harness' only-increasing wall the `time within` / `ge_last` lines are the same "
              "on model and spec and the `_ => time_exchange_last` arm of time() (wall behind the anchor) is never executed — submillisecond_backstep "
              "and a change of the guard `>= 0` into `> 0` are model-level / invisible to both the translation tie (whole milliseconds: both guards "
              "agree there) and the harness. The spec's anchor (`specAnchor`) uses the code's own acceptance condition; only the stored time has an "
              "independent characterisation (spec_last_is_max), and the spec prints {fresh|kept} on ties. EngineEvent::time_exchange and the "
              "accessors are hand-modelled (not in the translator group `clock`). "
              "Additionally tied by translation: LiveClock::{time, process} and HistoricalClock::{new, time, process} are regenerated from the current clock.rs on every run by tools/rust2lean_sm.py (Generated/Machines2.lean; Utc::now() an explicit parameter, Arc<RwLock<_>> transparent) and proved equal to the model on millisecond-aligned instants (kernels_agree_with_source); the translator and its prelude are trusted for that tie.")
