N = {"quick": 600, "thorough": 9000}
EXHAUSTIVE = {"quick": False, "thorough": True}
RULE = ("every run starts with three fixed cases that iterate over ALL connectors: `tables` (`consts` for each of the 15 connectors: Connector::ID, the URL "
        "constant, Connector::url() parsed, ping_interval() with the ping payload, subscription_timeout(); then `census`, which re-counts the "
        "`impl Connector` / `impl ExchangeServer` lines of the source tree under test), `expected-table` (expected_responses on maps of 0/1/2/5 entries "
        "for each connector) and `empty` (the empty subscription list through WebSocketSubMapper::map for each of the 21 (connector, kind) pairs and "
        "through Connector::requests for each connector). Random cases: two thirds instrument-level (cycling through the 21 pairs: 1-5 (thorough 1-7) "
        "instruments from a 16-name pool with case variants, prefixes and concatenation collisions, 20 % chance per position of repeating an earlier "
        "instrument verbatim or in another spelling; `sub`, then `sub` of the reversed / extended / shortened list, then `exp` with a random map size), "
        "one third ExchangeSub-level (cycling through the 15 connectors: 2-3 `req` ops with 0-4 (thorough 0-5) subscriptions; 60 % of the ops use only names the venue grammar can carry (the "
        "connector's real channels, markets of two pool names joined by nothing / - / _ |, mostly upper-case), the others take the channel from the real "
        "channels (70 %) or from text over an alphabet containing the venue separators @ . : | / - _, double quote and backslash, and the "
        "market from upper-case concatenations or such text, sometimes empty). Each frame is parsed with serde_json::Value, read the way the venue's "
        "documented grammar reads it (key set checked) and also compared as raw JSON text for all 15 connectors (Gateio's `time` value is checked to be "
        "the current epoch-millisecond time and replaced by NOW); the model's `frame` / `topic` lines are the reading of the model's JSON text by its own "
        "venue-side reader (`readText`), so the two readers are compared on identical text. Thorough additionally enumerates, for each of the 21 pairs, every instrument list of "
        "length 1-3 over three instruments two of which share a venue symbol (39 x 21 = 819 cases, each followed by the list without its last element), and "
        "for each connector every `req` list of length 1-2 over four topics (20 x 15 = 300). corpus/C13Q/domain.ops (input-domain audit): 35 (Okx: 70) subscriptions in ONE call with numbered names (btc1 a prefix of btc12, "
        "btc+2usd = btc2+usd on concatenating venues) - the generator stops at 6 instruments per call. A case is distinct by the SHA-1 of its op lines and "
        "non-trivial when the implementation's trace shows at least two different observation blocks")
ASSUMPTIONS = [
    "ASCII only: Binance lower-cases the market with the Unicode `to_lowercase`; the model lower-cases A-Z (the correspondence generates ASCII names)",
    "JSON string escaping is modelled for the double quote and the backslash; channel and market names contain no control characters",
    "the frames of one `requests` call are observed as the returned Vec<WsMessage>, in order; `WebSocketSubscriber::subscribe` sends them in this order with "
    "one `websocket.send(..).await?` each (a failing send aborts before validation; sending itself is not driven: the model stops where the socket starts)",
    "the venue-side reading of a frame (`readText` on the JSON text; `Wire.topics` on the model's constructor; equal by venue_reads_the_text) is the documented request grammar of each venue as the sub-check author read it: Binance "
    "`<symbol>@<stream>`, Bitmex `<table>:<symbol>`, Bybit `<topic>.<symbol>`, Coinbase channels x product_ids, Gateio channel x payload, Kraken "
    "subscription.name x pair, Okx args objects, Bitfinex channel + symbol; the theorems about requested topics assume names that this grammar can "
    "carry (`Decodable`: no `@` in a Binance symbol, Binance stream names start with `@`, no `:` in a Bitmex table name, no `.` in a Bybit topic name), which "
    "holds for every supported pair and every instrument without `@` in its asset names (supported_decodable)",
    "documented acknowledgements (`docAcks`) are read off the payload examples quoted in the connectors' subscription.rs / message.rs doc comments: one per "
    "request frame for Binance (`id`), Bybit (`req_id`), Coinbase (`subscriptions` lists everything), Gateio, Bitfinex; one per topic for Bitmex "
    "(`\"subscribe\":\"trade:XBTUSD\"`), Okx (`\"args\":{..}` one object) and Kraken (`\"pair\":\"XBT/EUR\"`). How a venue answers a request that repeats a topic is "
    "not documented in the repository: where two subscriptions share an id the spec driver does not constrain `expected` or `map`",
    "Bitmex: the code expects ONE response whatever the number of subscriptions while the quoted payload acknowledges one topic; the spec driver constrains "
    "`expected` for Bitmex only when there is exactly one subscription (theorems expected_is_documented_iff, bitmex_waits_for_one_of_n; concrete input in the report)",
    "Gateio's `time` field is `Utc::now().timestamp_millis()`; the model renders it as NOW and the harness checks it is within two minutes of the current time in ms",
    "the URL table is compared literally (constant and `Url::parse` result); the spec only requires scheme `wss`, a host containing the venue's name and the "
    "10 s default timeout — whether a host exists is outside the check (Coinbase's constant is `ws-feed.execution.coinbase.com`)",
    "instrument keys are the positions in the subscription list (Keyed<usize, MarketDataInstrument>); `usize` is Nat",
]
SOURCE_FILES = [
    "barter-data/src/exchange/mod.rs", "barter-data/src/exchange/subscription.rs",
    "barter-data/src/subscriber/mapper.rs", "barter-data/src/subscriber/mod.rs",
    "barter-data/src/exchange/binance/mod.rs", "barter-data/src/exchange/binance/spot/mod.rs", "barter-data/src/exchange/binance/futures/mod.rs",
    "barter-data/src/exchange/binance/subscription.rs",
    "barter-data/src/exchange/bitfinex/mod.rs", "barter-data/src/exchange/bitfinex/subscription.rs",
    "barter-data/src/exchange/bitmex/mod.rs", "barter-data/src/exchange/bitmex/subscription.rs",
    "barter-data/src/exchange/bybit/mod.rs", "barter-data/src/exchange/bybit/spot/mod.rs", "barter-data/src/exchange/bybit/futures/mod.rs",
    "barter-data/src/exchange/bybit/subscription.rs",
    "barter-data/src/exchange/coinbase/mod.rs", "barter-data/src/exchange/coinbase/subscription.rs",
    "barter-data/src/exchange/gateio/mod.rs", "barter-data/src/exchange/gateio/spot/mod.rs", "barter-data/src/exchange/gateio/future/mod.rs",
    "barter-data/src/exchange/gateio/perpetual/mod.rs", "barter-data/src/exchange/gateio/option/mod.rs", "barter-data/src/exchange/gateio/message.rs",
    "barter-data/src/exchange/kraken/mod.rs", "barter-data/src/exchange/kraken/subscription.rs",
    "barter-data/src/exchange/okx/mod.rs", "barter-data/src/exchange/okx/subscription.rs",
]
TRUSTED = [
    "C13Q: the harness' venue-side reader of request frames (serde_json::Value + the documented request grammars) and its census of `impl` lines",
]


def signature(ops, k, key, impl_line, spec_line):
    op = ops[k].split() if k < len(ops) else ["?"]
    ex = op[1] if len(op) > 1 else "?"
    fam = ex.split("_")[0]
    return f"clause={key}/{op[0]}/{fam}"


TECHNIQUE = ("Lean 4: refinement of the eight `Connector::requests` implementations to the documented request (verb, frames, topics) for every list of "
             "subscriptions by case analysis over the implementations and list induction; first-occurrence / last-writer characterisation of the "
             "instrument map; decided tables for URLs, pings, timeouts; correspondence of the model with the real mapper and connectors down to the raw JSON text")
LEVEL_TEXT = ("Proof (sub-check of C13). Lean theorems over a model of ExchangeSub, the eight Connector::requests implementations behind the 15 connectors, "
              "expected_responses, url / ping_interval / subscription_timeout, WebSocketSubMapper::map and WebSocketSubscriber::subscribe up to the first send "
              "(lean/BarterModel/Props/C13Q.lean), for every connector and every list of subscriptions (any length, duplicates allowed). "
              "NO HYPOTHESIS: reading the JSON TEXT of each frame with the venue's documented grammar (`readText`: a lexer of string literals with their escapes "
              "plus the grammar's keys; not the model's constructor) gives the frame's verb and topics, for all names (venue_reads_the_text, "
              "same_text_same_reading); as many topics are requested as subscriptions were given and as many frames sent as the format says - one for the "
              "batching venues, one per subscription otherwise; appending subscriptions appends frames for the non-batching venues (one_topic_per_subscription, "
              "frame_count, requests_append); the map's ids are pairwise distinct, the map has as many entries as the request has topics iff no two "
              "subscriptions share an id and is strictly smaller iff some do, and a shared id belongs to the LAST subscription carrying it (map_ids_distinct, "
              "map_smaller_iff_duplicates, map_strictly_smaller_iff_duplicates, map_key_is_last_subscription, last_subscription_spec); the number of responses "
              "the validator waits for equals the number of acknowledgements the quoted venue payloads document iff Binance/Bybit, or no two subscriptions share "
              "an id (Bitfinex, Coinbase, Gateio, Kraken, Okx), or - Bitmex - there is exactly one subscription; it never exceeds it for a non-empty list "
              "(expected_is_documented_iff, expected_le_documented, bitmex_waits_for_one_of_n, documented_acks); the empty list: Binance, Bybit, Bitmex and Okx "
              "still send a frame, Binance, Bybit and Bitmex then wait for a response (timeout after 10 s of silence, `ended` if the venue hangs up), everyone "
              "else validates at once - the generic validator for all but Bitfinex, Bitfinex's own validator separately (empty_request, empty_expected, "
              "empty_validates_at_once, empty_validates_at_once_bitfinex, empty_unanswered_times_out; linked to the C13S validator model). "
              "FOR NAMES THE VENUE GRAMMAR CAN CARRY (`Decodable e s` for every subscription: no `@` in a Binance symbol and a Binance stream name starting "
              "with `@`, no `:` in a Bitmex table name, no `.` in a Bybit topic name; vacuous for the other five venues, where these statements are "
              "unfoldings): what the venue reads in the frames - and in their JSON text - is exactly the documented request for the subscriptions: verb, one "
              "frame for the batching venues or one single-topic frame per subscription otherwise, topics in order, Binance symbols lower-cased "
              "(requests_refine_spec, text_read_refines_spec, requested_is_subscribed, requested_perm_subscribed, kth_requested, requests_determine_topics). "
              "FOR A SUPPORTED PAIR (`p in supported`) AND, FOR BINANCE, ASSET NAMES WITHOUT `@` (`CleanName`): what the mapper derives from instruments is "
              "decodable (supported_decodable); the ids of the instrument map are exactly the ids derivable from the requested topics "
              "(map_ids_are_requested_ids, id_in_map_iff_requested); and, for instrument kinds the pair supports (`supports p i.kind`), the venue is asked for "
              "its own channel and symbols, in order (asks_for_venue_names); Binance symbols round-trip through lower/upper case (binance_symbol_round_trip, "
              "Binance family only). "
              "Definitional / bookkeeping, not results: every_frame_has_the_verb (the verb is a constant of the frame shape), exchange_sub_id, timeout_table, "
              "expected_table, the eight ..._text (renderings of the fixed frame shapes), connectors_enumerated, connector_ids_distinct, urls_distinct, "
              "url_table, ping_table (decided over the 15 connectors; url and ping values are copies of the code's constants). "
              "The model is tied to the code on every run: real mapper and connectors, frames parsed and compared as raw text.")
LEVEL_NOTE = ("Trusted: Lean kernel; axioms propext/Classical.choice/Quot.sound only (`decide +kernel` only for the finite tables and the examples); the hand-written "
              "model (tied by sampled correspondence: 3 fixed all-connector cases + 600 quick / 9 000 random + 1 119 exhaustive small-scope cases thorough); the "
              "harness' venue-side frame reader (serde_json::Value + grammar), now cross-checked on every run against the model's own reader of the same text "
              "(`readText`). Unicode lower-casing, JSON escapes other than quote and backslash, and the actual sending are not modelled. "
              "Oracle (spec mode), key by key: `nframes` / `frame` / `topic` for `sub` ops are INDEPENDENT (computed from the op through C13's venueChannel / "
              "venueSymbol, supported kinds only; the implementation's lines come from the real JSON text through the harness' reader); the same keys for `req` "
              "ops echo the op's names (content only for Binance / Bitmex / Bybit: the join / split round trip, `Decodable` inputs only, otherwise `nframes` "
              "alone); `map` is independent but simple (position = key; printed only when the ids are distinct); `expected` for `sub` is the documented "
              "acknowledgement count of the request (same 1 / n numbers as the code's table; Bitmex constrained only for one subscription; not constrained "
              "when two subscriptions share an id); `consts`: only `scheme`, `hostvenue` and `timeout` are constrained. CORRESPONDENCE-ONLY (impl vs model, "
              "never in the spec): `ids` (a copy of `ExchangeSub::id`), `expected` for `exp` ops (the code's table), `id`, `url`, `parsed`, `host`, `ping`, "
              "`raw`, `connectors` / `impls` / `servers` - url_table / ping_table are copies of the code's constants. Unsupported instrument kinds "
              "(out of generator) are not constrained by the spec and excluded from the theorems by their hypotheses.")
