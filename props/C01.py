N = {"quick": 400, "thorough": 20000}
EXHAUSTIVE = {"quick": False, "thorough": True}
RULE = ("random op sequences (length 1-25/40) over 1-2 instruments x 1-3 client order ids: record_in_flight_open / record_in_flight_cancel, "
        "order snapshots (in-flight echo, open with filled in {0,q/2,q} and timestamps 0..6, cancelled/fully-filled/failed/expired), cancel responses ok/err, "
        "full account snapshots of 0-4 orders; every 10th case also uses hand-built cancel-in-flight markers (model vs code only; the lifecycle spec is silent); "
        "3% of cases end with an unknown instrument (panic on both sides). Thorough: additionally every sequence of length <= 3 over an 18-symbol single-id alphabet "
        "(6 175 sequences). Driven through EngineState::update_from_account and InFlightRequestRecorder for EngineState. Distinct by SHA-1 of the op lines; "
        "non-trivial when the observed order tables change at least once")
ASSUMPTIONS = [
    "order snapshots carry the states an exchange can report (in-flight echo, open, cancelled, fully filled, failed, expired); hand-built snapshots carrying a CancelInFlight marker are modelled as the code treats them but are outside the lifecycle table (hypothesis exchangeStatesOnly)",
    "time_monotone excludes re-sending an open request for an id that is already tracked (the code overwrites the entry with OpenInFlight and logs an error; witness theorem duplicate_request_witness)",
    "READING of the timestamp clause: 'the exchange-reported data HELD for an order never moves back' is decided per tracking episode (time_monotone_episode, time_monotone_run): once the lifecycle clause has made the engine forget an order (terminal report, confirmed cancel) nothing is held, and a stale open report that arrives afterwards starts a new episode with its old timestamp, as the lifecycle clause ('becomes tracked when the exchange reports it open') itself demands. The history open t=5; cancelled; open t=1 is the kernel-checked witness resurrection_witness; the same history violates C09's unambiguous wording ('always carry the greatest exchange timestamp delivered so far') and is recorded there as known finding clause=ord_resurrected",
    "FnvHashMap<ClientOrderId, Order> behaves as an association list with unique keys",
    "static order fields other than quantity/price (side, kind, time in force, strategy) are not modelled; they are never read by the tracking code",
]
SOURCE_FILES = ["barter/src/engine/state/order/mod.rs", "barter/src/engine/state/order/in_flight_recorder.rs", "barter-execution/src/order/state.rs",
                "barter-execution/src/order/mod.rs", "barter/src/engine/state/instrument/mod.rs", "barter/src/engine/state/mod.rs",
                "barter-execution/src/order/request.rs", "barter-execution/src/order/id.rs", "barter-execution/src/error.rs", "barter-integration/src/snapshot.rs",
                "barter-instrument/src/lib.rs"]
CLAIM = True
TECHNIQUE = "Lean 4: refinement of the order table to a per-client-order-id lifecycle automaton (case analysis per step, induction over histories) + frame lemmas; correspondence with EngineState::update_from_account / record_in_flight_*"
LEVEL_TEXT = ("Proof. lean/BarterModel/Props/C01.lean proves, for every order table and every finite op history: frame (ops about one id / instrument never change another: "
              "frame_cid, frame_instrument, engine_run_instrument), refinement of each id's tracked state to the documented lifecycle automaton (refines_lifecycle), "
              "untracking on cancelled/fully-filled/failed/expired, on an open report with nothing left to fill and on cancel-ok from EVERY prior state (untracked_on_*), "
              "tracking on request-sent / open report (tracked_on_*), failed cancel restores the last confirmed open (cancel_err_restores), and the held exchange timestamp never "
              "moves back (time_monotone_step, time_monotone_run). Unbounded in history length, number of ids and instruments. The suite only samples single (state,input) pairs.")
LEVEL_NOTE = ("Trusted: Lean kernel; axioms propext/Classical.choice/Quot.sound; hand-written model of Orders tied to the code by sampled correspondence through the real EngineState "
              "(400 quick / 20k random + exhaustive length<=3 thorough). Hypotheses: exchangeStatesOnly (no hand-built CancelInFlight snapshots); time monotonicity excludes duplicate open requests for a tracked id. "
              "Additionally tied by translation: Orders::{update_from_order_snapshot, update_from_cancel_response, record_in_flight_cancel, record_in_flight_open} (with Order::to_active, Order::from(&OrderRequestOpen), ActiveOrderState::open_meta, Open::quantity_remaining and their types) are regenerated from the current source on every run by tools/rust2lean_sm.py (Generated/Machines3.lean; the FnvHashMap and its Entry API read through the translator's explicit map vocabulary, an association list proved to be a finite map) and proved equal to the Orders model for all tables and inputs (map_machine_agrees_with_source); the translator, its prelude and the stated meaning of the map vocabulary are trusted for that tie.")
PREBUILD = [["python3", "tools/rust2lean_sm.py", "--require", "orders"]]
