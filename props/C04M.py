N = {"quick": 600, "thorough": 15000}
EXHAUSTIVE = {"quick": False, "thorough": True}
RULE = ("tbd")
ASSUMPTIONS = []
SOURCE_FILES = ["barter/src/execution/builder.rs", "barter-execution/src/exchange/mock/mod.rs",
                "barter-execution/src/client/mock/mod.rs", "barter/src/execution/manager.rs",
                "barter-instrument/src/index/mod.rs", "barter-execution/src/map.rs"]
CLAIM = False
TECHNIQUE = "tbd"
LEVEL_TEXT = "tbd"
LEVEL_NOTE = "tbd"
