N = {"quick": 600, "thorough": 15000}
EXHAUSTIVE = {"quick": False, "thorough": True}
RULE = ("every case drives the REAL ExecutionBuilder: a list of instrument definitions (1-3 of 5 exchange labels in shuffled order, 1-6 / 1-8 definitions, spot with 20 % of the cases "
        "mixing in perpetuals / futures / options at 25 %, 45 % with an InstrumentSpec whose quantity unit is an asset (50 %), Contract or Quote; 4 asset internal names shared by all "
        "exchanges with exchange names that differ per exchange (12 % of the cases violate `internal name determines exchange name`), instrument exchange names unique per exchange "
        "except in 20 % of the cases where they come from a pool of 2 and collide inside an exchange; 15 % with a repeated definition) is indexed by the real IndexedInstruments::new; "
        "12 % of the cases then tamper with the collection through its derived Deserialize (asset key, base / quote / quantity-unit asset index of an instrument, exchange id of an "
        "instrument: collections the builder cannot produce, model vs code only); then per round (15 % two rounds) for every indexed exchange in shuffled order add_mock (70 %: latency 80 % in "
        "{0,10,100,101} ms, 6 % 999 ms, 14 % in {1000,1001,2500,5000} ms - at or beyond the manager's hard-coded 1 s request timeout -, fee in {0,0.001,0.01,0.1,0.25}, one balance per asset exchange name of that exchange in shuffled order with pairwise different amounts; 8 % spoiled: a balance "
        "missing, or a balance for a name the exchange has no asset for), add_live of a recording stub client (20 %) or nothing (10 %), 6 % an extra add for an absent or repeated exchange; "
        "`build`: ExecutionBuilder::new, the adds in order (panics caught and classified by their message), build(), init() on a current-thread tokio runtime with paused clock, "
        "the runtime then runs to quiescence (3 virtual seconds beyond the largest configured latency) after every operation and stays alive for the rest of the case; then 2-9 / 2-14 open requests sent through the REAL Engine::send_request "
        "(engine/action/send_requests.rs; the engine owns the builder's transmitter table): exchange index 0..len (5 % out of range), 85 % an instrument of that exchange else any index 0..=len, buy / sell, market "
        "92 % / limit, price in {0.5,1,2,3,10}, quantity in {0,0.5,1,2,7,50,1000,-1}. Observed per op: result class of build (panic kind / asset with the position of the failing add, "
        "Err index / duplicate with position, build panic, init error, ok), the slots of the MultiExchangeTxMap, the three lengths of ExecutionHandles, the indexed initial account snapshot "
        "of every link (asset index : amount); per request: no transmitter / channel closed / manager panicked / live stub called with (exchange id, instrument name) / mock, and everything "
        "that arrived on the merged account channel: order snapshot (exchange index, instrument index, filled / active / rejected / insufficient <asset index> / offline / timeout = the manager's own OpenFailed(Connectivity(Timeout))), balance snapshot "
        "(asset index, total, free), trade (instrument index, side, price, quantity, fees). Thorough additionally enumerates every set of <= 3 definitions out of a universe of 10 (two "
        "exchanges x {three spot instruments over three assets, two of them sharing an exchange name, one with an asset-unit spec; one perpetual}) with a mock per exchange and a buy + sell of "
        "every (exchange index, instrument index) pair incl. one out of range (175 cases), and every single tamper op over small ranges on a fixed three-instrument collection (93 cases). "
        "INPUT-DOMAIN FAMILY (`d` cases, max(6, N/6) of them, own seed): the same construction with 1-5 exchanges, histories of 10-30 requests (a foreign instrument only 2 %), and per case one of three magnitude regimes "
        "chosen so that every product and sum stays within the 28 digits Decimal computes exactly - boundary: fee in {-0.01, -0.25 (rebates), 0, 0.25, 1, 2}, balances in {0, 0.5, -5, 100, 100, 250, 12.25, 1000} (zero, negative, "
        "fractional, EQUAL on several assets, amounts an order spends EXACTLY: 50 x 2, 40 x 2 x 1.25, 25 x 2 x 2), price in {0, -2, 1, 2, 2.5, 10}, quantity in {-0.5, 0, 1, 25, 40, 50, 100, 125}; tiny: fee / balance / price / "
        "quantity down to 1e-8 (fee also -1e-8); huge: price 1e12, quantity to 1e11, balances to 1e21. Every request of every case now also runs the time in force through its five values and the strategy id through "
        "three (by request counter); the order snapshot that comes back must carry them and the cid (assert). "
        "20 committed corpus cases (corpus/C04M; D1: rebate fee, exact spend to a zero balance, zero / negative balances and prices with fees of 100 % / 200 %, 1e-8 and 1e21 magnitudes) pin the edge behaviours (A1: name collision: last wins; unsupported kind only on the own exchange; dangling base / unit / re-keyed asset; absent and "
        "duplicate exchange; missing balance kills the exchange task; stray balance fails init; two exchanges mock + mock. A2, theorem review: latency 1000 / 2500 / 5000 ms = order executed, engine told `timeout`; 999 ms heard; "
        "a dead exchange answers `offline` at once; definitions violating WFAssets; two links interleaved with a foreign and an out-of-range request). A case is distinct by the SHA-1 of its op lines and non-trivial "
        "when the implementation's observation blocks differ at least once. "
        "CONFIGURATION-SHAPE FAMILY (`cfg` cases, max(12, N/12) of them, own seed; generator only, same ops): 3-5 exchanges with at least one spot instrument each and the link shapes, by exchange INDEX order, that the random families produce rarely or never (quick, seed 1, before: 9 of 813 builds had two adjacent link-less exchanges, none had a linked exchange AFTER two link-less ones): two tracked-but-not-traded exchanges before the first mock; only the LAST / only a MIDDLE / only the FIRST exchange linked; link-less + live + mocks; nothing linked; add_* calls in index order or in reverse; then a buy and a sell on an own instrument of EVERY exchange index (linked or not) and one beyond the last. 2 committed corpus cases (corpus/C04M/cfg_1, cfg_2)")
ASSUMPTIONS = [
    "generate_mock_exchange_instruments is private and its result is moved into a boxed future: it is observed only through behaviour - which names the mock exchange knows (never "
    "InstrumentInvalid for the own manager), which asset's balance a buy / sell on each instrument moves or reports insufficient, and its two panics; the entry fields the exchange never reads "
    "(name_internal, the quote-asset marker, the InstrumentSpec incl. its quantity unit) are modelled field by field from the source (theorem fields_carried_over) but NOT tied by the "
    "correspondence, except that a dangling quantity-unit asset index panics (corpus case, tamper enumeration)",
    "identifiers as in C11 / C04: exchange ids, names, the decimals of an InstrumentSpec are natural numbers (the harness maps them order-preservingly); FnvHashMap built by collect() = "
    "association list with in-place upsert read by lookup (last pair of a key wins), iteration order never observed",
    "the ledger of the mock exchange is the C08 model, imported and reused unchanged (positions: balance = position in config.initial_state.balances, instrument = position in the table); "
    "exact rational arithmetic, rounding / overflow of Decimal not modelled (the generator's magnitude regimes keep every product and sum within 28 significant digits; signed fees, prices, quantities and balances, zero included, ARE driven); initial balances have total = free and pairwise distinct names (the ops are rejected otherwise: the code's map would keep the last one); "
    "orders of the initial state are C08C and not part of this model",
    "the ExecutionInstrumentMap, the transmitter table and the engine's routing are the C04 model (imported, `toColl` projects the C11 collection onto it); the collection and its builder are the C11 model",
    "hypotheses of the theorems about builder output: C11 `WFAssets` (within an exchange an asset's internal name determines the asset) ONLY where table entries are compared with definitions "
    "(round_trip, refines_definition_spec) - every index-level theorem does without it since theorem review A (`ViewHypW`; witness view_hypotheses_without_wf_assets_witness); "
    "`UniqueNames defs ex` / `UniqueAssetNames defs ex` (on the mocked exchange an instrument's / asset's exchange name determines it) wherever a name has to be translated back to an index; "
    "at the excluded points the code keeps the LAST instrument of a name in the table and in the manager's name->index map (modelled, theorem collision_last_wins, corpus case, compared with the "
    "code; the specification is silent): an order for the earlier instrument is then executed against the later one's assets and reported under the later one's index",
    "engine-view refinement (`ViewHypW`): additionally the configured balance names are exactly the asset exchange names of the mocked exchange (a missing one makes open_order panic and the task "
    "die - modelled, theorem configured_balances_keep_it_alive, compared; a stray one makes ExecutionBuild::init fail - modelled, compared; the specification is silent in both cases)",
    "scheduling: an operation is followed by the runtime running to quiescence under a paused clock (3 virtual seconds beyond the largest configured latency), one request in flight at a time, OPEN requests only (a cancel request on a mock link - MockExchange::run drops its response sender, cancel_order is unimplemented!() - has no op and no model); "
    "the manager's request timeout on a mock link is the constant 1 s of builder.rs:97 (`mockRequestTimeoutMs`), modelled: with latency_ms >= 1000 the engine is handed the manager's own "
    "OpenFailed(Timeout) under the request's key although the exchange has executed the order and the notifications arrive (theorems timeout_iff, timeout_hides_an_executed_order_witness). AT the threshold "
    "(exactly 1000 ms) both timers expire in the same tick and the outcome is decided by the poll order of the runtime: on the paused current-thread clock of the harness the timeout wins "
    "(deterministic, compared; in real time the manager's timer is the older one); a dead exchange task answers `offline` at once; the request timeout of a LIVE link is a parameter of add_live "
    "(the stub answers at once; not modelled); the client clock is a fixed instant; exchange time stamps are not compared; Reconnecting events of the account stream of a dead mock exchange (property C12) are ignored; "
    "the live client is a recording stub that rejects every order",
    "the `instrumentInvalid` arm of the model's `mockOpen` (no order snapshot) is unreachable for every collection with key = position (theorem manager_names_known: a name the manager can send is a key of "
    "the table); outside that the code would index the name and emit a snapshot - never generated, never compared",
    "tracing output, serde / derive impls, AsyncShutdown / IntoIterator of ExecutionHandles (chaining three vectors) are not modelled",
]
SOURCE_FILES = ["barter/src/execution/builder.rs", "barter-execution/src/exchange/mock/mod.rs", "barter-execution/src/exchange/mock/account.rs",
                "barter-execution/src/client/mock/mod.rs", "barter/src/execution/manager.rs", "barter-execution/src/map.rs",
                "barter-execution/src/indexer.rs", "barter-instrument/src/index/mod.rs", "barter-instrument/src/index/builder.rs"]


def signature(ops, k, key, impl_line, spec_line):
    """clause = observation key; op = operation class (+ side for orders)"""
    op = ops[k].split() if k < len(ops) else ["?"]
    cls = op[0]
    if op[0] == "order" and len(op) >= 5:
        cls = "order_" + op[3] + op[4]
    return "clause=%s/op=%s" % (key, cls)


CLAIM = False
TECHNIQUE = ("Lean 4: the filter_map + collect of generate_mock_exchange_instruments as mapE over the exchange's instruments followed by an upsert fold, characterised pointwise (first offender decides the panic, "
             "last pair of a key wins) and against a generic asset-key traversal (`nativeI`); builder output connected to the definitions through C11's build lemmas (never dangling, kind preserved, "
             "references resolve), giving a refinement to a definition-level specification without indices; projection of the C11 collection onto the C04 collection with proofs that C04's hypotheses "
             "hold; ExecutionBuilder as a fold with an invariant over arbitrary add sequences; the running system as a transition system with an invariant kept by every request; the mock exchange = "
             "C08 run (history variable), and a renaming lemma for the C08 history-only specification (instrument positions -> instrument indices, balance positions -> asset indices) that turns C08's "
             "refinement into a refinement to the C08 specification over ENGINE indices, by induction over whole request histories; COMPOSITION of that isolated-task refinement with the running system: a per-link invariant over the parts of the state no request changes "
             "(transmitter slot, manager skeleton, channel pair) + frame lemmas (a request for another exchange index changes neither this link's manager nor its mock task) give, by induction over "
             "arbitrary interleaved histories, `task of link x in the built system = isolated run on the requests routed to x`; the manager's request timeout as a layer over the response; correspondence of model and specification with the real "
             "ExecutionBuilder / ExecutionManager / MockExecution / MockExchange under a paused tokio clock")
LEVEL_TEXT = ("Proof (sub-check of C04). lean/BarterModel/Props/C04M.lean, 44 theorems, all for arbitrary collections / add sequences / request histories, none `_partial`. "
              "A. TABLE, for every IndexedInstruments (also ones the builder cannot produce) and every exchange id: lookup_refines_spec (find_instrument_data = the instrument of that exchange with that "
              "exchange name in the exchange's vocabulary, nothing else), keys_exact (keys = exchange names of exactly the instruments whose exchange.value is the mocked id: none missing, none foreign), "
              "keys_once, entry_sound (keyed by its own name_exchange, exchange id, Spot, native form of an instrument of that exchange), fields_carried_over (names / quote marker unchanged, base / "
              "quote / quantity-unit asset = exchange name of the asset entry with that KEY, price / quantity / notional numbers unchanged, Contract / Quote unchanged, spec absent iff absent), "
              "complete_when_names_unique (+ size), collision_last_wins (shared name_exchange: the table ENTRY is the LAST instrument in index order, the earlier unreachable; that an order for the earlier one is "
              "then reported under the later index and debits the later one's asset is pinned by a corpus case only), sets_up_iff (succeeds iff every own "
              "instrument is spot with resolvable asset keys; other exchanges' instruments are never looked at), panic_is_first_offender (reason = defect of the first offending own instrument; kind is "
              "checked before assets). B. BUILDER OUTPUT (C11 model): builder_never_dangling (find_asset(..).unwrap() cannot fail, no hypothesis), sets_up_iff_all_spot (+ `does not support` otherwise, "
              "empty table for an exchange without definitions), round_trip (WFAssets: every entry = a definition of that exchange with its assets replaced by their exchange names - C11 "
              "references_resolve read backwards - and every definition's name is a key), refines_definition_spec (WFAssets + unique names: lookup = `specFind` over the DEFINITIONS, indices gone). "
              "C. WITH C04: c04_hypotheses_hold (WFX always, WF under unique names: all of Props/C04 applies), manager_names_known (every name the manager can send is a key: no InstrumentInvalid), "
              "same_instrument_same_assets (NO WFAssets: index -> name -> table entry = native form of that instrument; entry's base / quote NAMES -> the instrument's own base / quote asset INDICES on the same link; "
              "name -> index). D. BUILDER: add_mock_panics_first, unknown_exchange_is_err_not_panic, duplicate_exchange_is_err, transmitter_table_is_C04 (mock or live: same addExecutions / buildExecution), "
              "spawned_per_exchange (#mock, #adds, #adds), mock_client_shares_channels_with_own_exchange (channel pairs distinct; each mock client <-> exactly one MockExchange, same exchange id, the table generated for it; "
              "exchanges pairwise distinct). E. RUNNING SYSTEM: invariant_of_every_reachable_state (after build+init and ANY request history incl. killed managers / exchanges), "
              "same_assets_for_every_order (no WFAssets; a request for (exchange index x, instrument index i) that reaches a mock: i belongs to that exchange; the order snapshot comes back under (x, i); the balance "
              "that moves - or is reported insufficient - is the instrument's own QUOTE asset index for a buy, BASE for a sell; the trade is on instrument index i with the requested side / price / "
              "quantity: C02's position index and C09's balance indices are the ones C08's ledger debits), configured_balances_keep_it_alive (wf iff every table name has a balance; all assets configured => wf; "
              "then no request kills an isolated task). ISOLATED mock exchange task (`mockRun` of the spawned task on a list of own requests), under `ViewHypW` = builder output, unambiguous instrument / asset names on the "
              "mocked exchange, balances configured for exactly its assets - WITHOUT C11 WFAssets since theorem review A: engine_view_refinement (whole histories: observations = the C08 SPECIFICATION exchange over "
              "engine indices - asset index, amount, fill - nothing when it prescribes nothing; names and positions gone), reject_outcome_refines_view (an order that is not filled comes back under its own key with "
              "`rejected` for a non-market order, else `insufficient <the asset INDEX it would have spent>`), init_snapshot_refines_view (for every asset index of the exchange the configured amount), "
              "manager_request_addressed (live link too: exchange id + instrument exchange name, or the manager refuses). "
              "G. COMPOSITION with the built system (theorem review A): built_system_runs_isolated_mocks (builder output, any adds, build + init, ANY history of open requests for any exchange index / instrument index "
              "incl. ones that kill managers or exchanges on this or another link: the mock exchange task behind exchange index x IS `mockRun` of the spawned task on `routedTo` = the requests addressed to x up to the "
              "first foreign instrument; its manager runs iff there was none), built_system_order_is_isolated_step (the next request for x: closed / manager panic / the events of `mockOpen` on that isolated run, "
              "indexed with the manager's map whose exchange key is x), built_system_refines_view (= what the spec driver prints per request: under ViewHypW + no foreign request so far, the ENGINE is handed "
              "exactly what the index-level C08 specification prescribes over the requests routed to this exchange: spec keys `bal`, `trade`, `order`), built_system_ledger_is_C08 (the ledger inside the built system = "
              "MockExchange.run from toCfg on the routed requests: all of Props/C08 applies), built_system_mock_never_dies, built_system_init_snapshot (spec key `snap<x>` for buildInit itself), mock_exchange_has_its_link. "
              "H. REQUEST TIMEOUT (add_mock hard-codes 1 s, builder.rs:97; theorem review A): timeout_leaves_system_state (the timeout undoes nothing at the exchange), timeout_iff (the engine is told `timeout` under the "
              "REQUEST's key exactly when the task survives the request and the configured latency is >= 1000 ms; balance / trade notifications untouched; below 1000 ms the client's response is seen; a dead task "
              "answers `offline` at once), witnesses timeout_hides_an_executed_order_witness (latency 1000: funded buy reported `timeout`, asset index 1 debited 100 -> 399/5 -> 298/5 by two such orders, an unfunded "
              "order `timeout` as well; 999: `filled` / `insufficient`), dead_exchange_answers_at_once_witness, view_hypotheses_without_wf_assets_witness (definitions violating WFAssets for which ViewHypW holds and no "
              "ViewHyp exists), exII_is_builder_output (the evaluated pipeline examples run on builder output). Definitional / bookkeeping, not results: ledger_is_C08 (one step; `mockOpen` calls MockExchange.step), "
              "runOrders_eq_runAll, the third component of spawned_per_exchange (= the second by the definition of `handles`). Tied to the code on every run by executing the same operations against the real code.")
LEVEL_NOTE = ("Trusted: Lean kernel; axioms propext/Classical.choice/Quot.sound only; the hand-written model (sampled correspondence: 600 quick / 15 000 random + 175 + 93 enumerated + 16 corpus cases thorough; "
              "hand mutants: 7 of generate_mock_exchange_instruments - base/quote swapped, filter inverted / removed, keyed by name_internal, non-spot accepted, first-wins collect, unit looked up via "
              "base - all flagged when the sub-check was built (five with a concrete failing input, first-wins and the unit lookup as correspondence breaks because the specification is silent there; patches not kept); "
              "kept under mutants/: C04M_insufficient_names_quote_on_sell, C04M_init_snapshot_drops_first_asset, C04M_mock_request_timeout_2s / _500ms (DUMMY_EXECUTION_REQUEST_TIMEOUT = 2 s / 500 ms: clause=order/op=order_* at latency 1000, 1001 / 999, concrete failing input)); "
              "harness (panic classification by message, quiescence by virtual sleep) and driver. The table generator is private: entry fields the exchange never reads are modelled from the source but not observed. "
              "Hypotheses: C11 WFAssets only for the two definition-level theorems; unique instrument / asset exchange names on the mocked exchange; for the engine-view refinement balances exactly for the exchange's "
              "assets. The spec driver speaks exactly under the hypotheses of built_system_refines_view (its gates `pristine`, `specAdds`, no stray balance, `specCovers`, `silent` are ViewHypW + managerAlive). Spec lines "
              "with a partial theorem: the order line of a LIVE link (`rejected` is the harness stub's answer; the addressing is manager_request_addressed), `handles` (spawned_per_exchange), `r builderr` / `r panic` "
              "(specAdds = sets_up_iff_all_spot + unknown_exchange_is_err_not_panic + duplicate_exchange_is_err, composed by the driver, not by a theorem). Outside: Decimal rounding, "
              "time stamps, concurrent requests in flight, the reconnect loop after a mock exchange died, AsyncShutdown, the request timeout of live links.")
