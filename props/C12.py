N = {"quick": 300, "thorough": 10000}
EXHAUSTIVE = {"quick": False, "thorough": True}
RULE = ("cases = committed corpus + seeded generator of harness/src/bin/c12.rs. 70 %: reconnecting-stream scripts (1-8 / 1-12 init outcomes, each `fail` or `ok` with 0-5 "
        "elements from {item, non-terminal error, terminal error, latency} over 4 payloads, optionally left open; fail rate 20/50/75 %; policy from "
        "initial {0,1,10,100,125,700} x multiplier {0,1,2,3,10} x max {0,5,500,1000,60000} incl. initial > max; composition = events | +error handler | +forward_to with "
        "receiver capacity 0-7 or unbounded); EVERY `conn` op re-runs the real composed stream on the script so far on a fresh paused-clock current-thread runtime and prints "
        "every init invocation, delivered item/error/notice and handler call with its tokio::time::Instant stamp plus the final status. 30 %: merge histories (1-30 / 1-60 ops "
        "over send-left/right, drop-left/right sender, single poll, drain) against the real merge() polled with a no-op waker. Thorough additionally enumerates every script of "
        "<= 4 connections over a 7-symbol alphabet under two policies (5 600 scripts) and every merge history of length <= 6 over 5 symbols followed by drain+poll (19 531). "
        "Input-domain families (separately seeded, appended after the random cases; 60 quick / N/10 thorough, one sixth each): dfail - a failure run of 12-40 / 12-70 "
        "consecutive init failures between two successes under slowly growing policies (125x2 cap 60000 = the repository's constant, 1x2 cap 60000, 1x255 cap 1e6, 1x2 cap 1e8, "
        "initial == max, multiplier 1 ...), then more failures (cap reached late, held, reset); dlong - scripts of 50-60 / 50-90 connections; dbig - initial / max in "
        "{2^32-1, 2^32, 2^32+1, 5e9, 2^33} with multiplier 1 / 2 / 255 and at most 3 failures (virtual-time bound below); dedge - initial == max, initial*mult^k == max and one "
        "either side (125x4|500, 125x2|999,1000,1001, 100x3|899,900,901, 1x255|65024,65025,65026, 499/500/501 cap 500, max 0) with failure runs of 2-7 around successes; dconn - "
        "connections of 20-60 / 20-120 elements with bursts of 3-9 consecutive non-terminal errors (mostly one id), payloads {0,1,2,3,2^32,2^63,u64::MAX}, a terminal error "
        "first / last / anywhere, latencies up to 60 s, forward capacities 10-1000; dmerge - merge histories with payloads from {1,1,1,2} or {0,1,u64::MAX} (equal across and "
        "within the inputs), 40-80 items on one side against 0 / 1 on the other, both sides silent, one sender dropped at a drawn position of the history (or after it), the "
        "other dropped later, sends after the end. "
        "Set-up shape families (configuration audit; separately seeded, appended last; 36 quick / N/12 thorough): cfgduo (2/3) - TWO reconnecting pipelines alive at once on one "
        "paused-clock runtime, each with its own script (1-14 connections, grown in a drawn interleaving: `bconn`) and its own policy (`bpolicy`), assembled with EQUAL StreamKey and "
        "origin (60 %: two subscription batches of one exchange and kind, the key init_market_stream builds) or different ones, merged by the real merge() and consumed by one "
        "loop - the assembly of ExecutionManager::init and the multi-exchange builders; the second pipeline's first init may fail or never return; every notice is checked to carry "
        "the origin its pipeline was given; cfghfwd (1/3) - events -> with_error_handler -> forward_to with receiver capacity 0-7 or unbounded (SystemBuilder / every example). "
        "A case is distinct by the SHA-1 of its op lines and non-trivial when the implementation's observation blocks differ at least once")
ASSUMPTIONS = [
    "list-level trace semantics: a run is what a consumer that keeps polling observes while the paused clock auto-advances; poll/wake scheduling is not modelled",
    "the futures / tokio-stream combinators (once, chain, repeat_with, then, enumerate, scan, filter_map, map, map_while, flatten, collect, merge, fuse) are modelled by their sequential semantics (trusted, exercised by the correspondence)",
    "tokio_stream's Merge fairness flag is an input of the model (theorems hold for every flag sequence; the driver feeds the alternating sequence of tokio-stream 0.1.x)",
    "backoff_ms_current * multiplier does not overflow u64; timer granularity (1 ms) is not modelled, all scripted durations are whole milliseconds",
    "the virtual time of one run stays below 29 * 2^30 ms (about 360 days): beyond it tokio's paused-clock timer wheel (6 levels x 6 bits of ms, with the harness's own far-future "
    "timeout parked in the top level) panics in Wheel::set_elapsed and leaves the process unusable - a limit of tokio's test clock, not of the code under test; generated waits "
    "beyond u32::MAX ms therefore come with at most three failures (sum < 2.6e10 ms); back-off values near u64::MAX are not generated (u64 overflow of the product: previous line)",
    "a policy with initial > max waits `initial` after the first failure and is capped only from the second (stated as is in backoff_sequence / backoff_closed_form)",
    "the first init failing means init_reconnecting_stream returns Err: no stream exists (init_failure_delivers_nothing); the property text's 're-initialisation' is read as attempts after the first success",
    "init_market_stream itself (consumer.rs:44-80) is run, as it is, by sub-check C12I over a scripted harness-local connector (two exchange ids, scripted MarketStream::init); the C12 harness proper composes the same three combinators in the same order over a scripted init closure",
    "mode duo (two live pipelines merged by merge()): neither input of the merge ever ends (a side whose FIRST init fails yields no stream and is replaced by a silent one), so "
    "the property's merge clause gives each side's complete trace in order; the expected observation is each pipeline's own run (keys ev / bev) with the stamps it has alone - "
    "the relative order of the two sides' events at equal virtual instants is not compared; StreamKey and origin are labels that do not occur in the model (the harness checks "
    "that a notice carries the origin given to its pipeline)",
    "mode hfwd: the expected trace is the handler trace cut after `cap` delivered items (handled errors are not sent and do not count); composed in the driver from the model's "
    "withErrorHandler / forwardTo and, on the spec side, specHandler + cutAfter - no theorem of Props/C12.lean is about this composition as such",
    "pipelines WITHOUT with_termination_on_error (ExecutionManager::init) or without with_reconnect_backoff are not run: both stages are generic over the inner stream and are "
    "covered through the full pipeline; multi-thread runtimes and forward_to running as a spawned task are not run (start_paused needs the current-thread runtime)",
    "merge: 'every item up to the point either input ends' is read at the stream level: the input whose end ends the merged stream is delivered completely; items of the other input that were queued but not yet polled when the end is observed are dropped by design (merge.rs doc comment: terminate when either stream terminates)",
]
SOURCE_FILES = ["barter-data/src/streams/reconnect/stream.rs", "barter-data/src/streams/reconnect/mod.rs",
                "barter-data/src/streams/consumer.rs", "barter-integration/src/stream/merge.rs",
                "barter-integration/src/channel.rs"]

_CLAUSE = {"ev": "trace(items_once_in_order/one_notice/errors_pass/backoff)", "evn": "trace_length(nothing_beyond_the_prescribed_trace)", "fin": "never_ends",
           "bev": "trace(items_once_in_order/one_notice/errors_pass/backoff)", "bevn": "trace_length(nothing_beyond_the_prescribed_trace)", "bfin": "never_ends",
           "out": "merge_order", "gotL": "merge_order", "gotR": "merge_order", "dfin": "merge_end", "closed": "merge_closed"}


def signature(ops, k, key, impl_line, spec_line):
    """violated clause + composition mode (events / handler / forward) or `merge`"""
    mode = "events"
    for line in ops[: k + 1]:
        t = line.split()
        if t and t[0] == "mode":
            mode = t[1]
    op = ops[k].split()[0] if k < len(ops) else "?"
    if op != "conn":
        mode = "merge"
    detail = ""
    if key in ("bev", "bevn", "bfin"):
        detail = " second-pipeline"
    if key in ("ev", "bev"):
        it, st = impl_line.split(), spec_line.split()
        if len(it) > 1 and len(st) > 1 and it[1] == st[1] and it[:-1] == st[:-1]:
            detail += " time"
        elif len(it) > 1:
            detail += " " + it[1]
    return f"clause={_CLAUSE.get(key, key)} mode={mode}{detail}"


CLAIM = True
TECHNIQUE = ("Lean 4: trace semantics of the stream combinators as list functions; refinement (run = spec, by induction over the script with the back-off counter "
             "generalised) of the composed pipeline to a specification written from the property text; clause theorems as corollaries; for merge an invariant over all "
             "histories and fairness schedules + refinement of every poll to a nondeterministic specification; correspondence with the real combinators on a paused-clock "
             "tokio runtime and with the real merge() under scripted readiness")
LEVEL_TEXT = ("Proof (PARTIAL: combinator algebra and back-off state machine proved on list-level trace models; poll/wake scheduling, tokio-stream's merge fairness flag, timer "
              "granularity and u64 overflow are NOT modelled - the tie to futures/tokio-stream/tokio is the sampled correspondence under virtual time). "
              "lean/BarterModel/Props/C12.lean proves, for EVERY script of init outcomes (init failure | success with any finite sequence of items, non-terminal errors, terminal "
              "errors and latencies, ending or staying open), EVERY back-off policy and every receiver capacity, about the executable model the driver runs: the composition "
              "init_reconnecting_stream.with_reconnect_backoff.with_termination_on_error.with_reconnection_events [+with_error_handler | +forward_to] produces exactly the trace "
              "(init invocations, sleeps, deliveries, handler calls, final status) of a specification written from the property text (run_events/handler/forward_refines_spec); "
              "hence: deliveries are, connection by connection, the items and non-terminal errors up to the end or first terminal error, once and in order, then exactly one "
              "notice before anything of the next connection (items_once_in_order, connection_segment, one_notice, open_connection_no_notice, terminal_error_cuts); non-terminal "
              "errors pass and do not end the connection, or go to the handler exactly once in order (errors_pass, errors_to_handler); failed attempts deliver nothing and the "
              "waits are w0 = initial, w(n+1) = min(w(n)*mult, max), reset after a success, nothing else sleeps (backoff, backoff_failure_run, backoff_sequence, "
              "backoff_closed_form, failed_attempt_delivers_nothing); the stream never ends and observations are stable under script extension (never_ends, run_prefix); "
              "forward_to delivers exactly the first n events to a receiver that takes n and completes only when that receiver is gone (forward_delivers_first_n). For merge, "
              "for EVERY history of sends / sender drops / polls and EVERY fairness choice per poll: delivered ++ queued = accepted per input (order, exactly once: merge_order), "
              "every poll is allowed by the nondeterministic spec (merge_refines), the end comes only from an ended input whose items were all delivered (merge_end_complete), "
              "nothing after the end (merge_after_end), pending only when nothing is available (merge_no_withholding). No theorem is _partial; the partiality is the modelling "
              "level named above. Unbounded in script length, element counts, policies and history length, which the single scenario test of the repo cannot reach.")
LEVEL_NOTE = ("Trusted: Lean kernel; axioms propext/Classical.choice/Quot.sound only; the hand-written trace model of the futures/tokio-stream combinators (Model/Streams.lean), "
              "tied to the code by sampled correspondence: every case runs the REAL ReconnectingStream combinators over a scripted init closure on a paused-clock current-thread "
              "tokio runtime (stamps = tokio::time::Instant) and the REAL merge() over mpsc_unbounded receivers with a no-op waker (300 quick / 10k random + 5 600 + 19 531 "
              "exhaustive small scripts / merge histories thorough); harness and drivers. Not modelled: wakers and task scheduling, multi-thread runtimes, tokio-stream's "
              "a_first alternation as such (taken as an input; theorems quantify over all schedules), timer granularity, u64 overflow of the back-off product, the spec oracle "
              "for merge prints only observations on which all allowed behaviours agree. Readings: first init failure = no stream; a policy with initial > max waits initial "
              "first; merge drops the not-yet-polled queued items of the input that did not end (documented behaviour of merge.rs).")
SUBCHECKS = ["C12W", "C12I"]
