N = {"quick": 300, "thorough": 5000}
EXHAUSTIVE = {"quick": False, "thorough": True}
RULE = ("per case: rule set spot|futures, 1-3 subscribed instruments, a manager map holding books for n (80 %), n-1 or n+1 keys; per instrument a simulated venue of 1-24 "
        "(thorough 1-40) elementary changes over <= 6 prices (both sides, 15/30/50 % deletions, contiguous or gapped ids), the same for all connections of the case; 1-3 "
        "connections. Per connection: REST snapshots = venue book at an id among cut points, cut+-1, 0, last id(+1) or any event id (5 %: one snapshot missing or an Update in its "
        "place -> init fails; 2 %: a second snapshot for the same instrument); 8 %: 1-3 messages buffered during subscription validation (50 % the message covering the snapshot "
        "point, else any genuine message or a non-update frame); then per instrument the genuine depth messages of the venue (U=lo+1 / first id in range, pu=lo, u=hi, levels = "
        "amounts at hi of the touched prices, shuffled, optionally with restated untouched prices and repeated levels) started early / at the covering message / late / anywhere, "
        "30/60/90 % unperturbed, else 1-2 of {drop, duplicate adjacent, duplicate later, swap neighbours, replay an old prefix}; 10 % of the cases add 1-4 non-genuine updates "
        "around the snapshot id; at most 9 (thorough 14) updates per instrument; instruments interleaved at random, 12 % of the updates sent as Binary instead of Text; with "
        "0/10/25 % per update a noise frame before it: Ping, Pong, raw Frame, one of 8 undeserialisable texts, Close, one of 6 tungstenite errors, or an update for a symbol that "
        "was never subscribed; the socket ends (eos) after 85 % of the non-last and 25 % of the last connections, otherwise the next connection is reached only if a chain broke. "
        "After EVERY open / frame / eos op the whole REAL pipeline is run from scratch on the input so far: real serde types (snapshot JSON, depth-update JSON for Text and Binary), "
        "real ExchangeTransformer::init, real process_buffered_events, real ExchangeStream<WebSocketParser, _, Binance{Spot,FuturesUsd}OrderBooksL2Transformer> over an in-memory "
        "stream of real tungstenite Messages / Errors (+ stream::pending() unless the socket ended), real init_reconnecting_stream . with_reconnect_backoff . "
        "with_termination_on_error(is_terminal) . with_reconnection_events . with_error_handler into the real OrderBookL2Manager::run over an OrderBookMapMulti, on a paused-clock "
        "current-thread runtime; compared per op: status, the new events the manager received, the new handler calls (by kind), totals, every managed book. thorough additionally "
        "enumerates, for both rule sets, every sequence of <= 3 frames over 9 symbols (5 genuine updates around a snapshot at id 5, Ping, junk text, Close, an unsubscribed symbol), "
        "with and without eos, followed by a second connection with a snapshot at id 7 and one more update (1 640 cases). On top of the N cases, N/4 cases (ids p...) from an "
        "independent random stream have DEPTH-LIMITED REST snapshots as the code's fetchers request them (`depth k n`, n in 1..4 with <= 6 prices per side; 15 % of the "
        "instruments of such a case keep the full depth): every snapshot of such an instrument is the venue's book at its id cut to the best n levels per side; harness and "
        "model then also print one `lv<k>:<side>:<price> <amount>` line per price of the venue after the `book` lines, and the oracle states those lines at exactly the "
        "prices the current snapshot covers, an admitted update wrote or the venue changed since the snapshot id (the whole-book line only when the limit cuts nothing). "
        "On top of these, N/8 cases (ids d…, input-domain audit) from a third independent random stream draw the classes the two families above never produce: every id "
        "of the case shifted by one of {0, 2^32-20, 22 611 425 143, 10^12, 2^53-20, 2^63-20, 2^64-401, 2^64-1 000 001} (each in turn); 50 %: prices on grids of 1e-8 ticks / "
        "at 1e12 / with 12 significant digits / across 1 and amounts from {1e-8, 123456789.12345678, 1e12, 1e12+1e-8, 0.1, 0.30000000, 2.5}; 50 %: a quarter of the levels "
        "of snapshots and updates spell their price with another scale (100 / 100.0 / 100.00); 40 %: non-genuine updates in 40 % instead of 10 % of the cases plus 1-3 "
        "non-genuine updates that CONTINUE a delivered one (pu = its u, u = its u..u+2, U among 0, its u, its u+1, u+1, u+3, its U - also U > u, which the futures rule "
        "admits) stating up to 4 random prices per side, repeats with different amounts included; 50 %: noise before 15/25 % of the updates and 35 % of the noise frames are Binary frames "
        "that do NOT deserialise (`binbad i`: the bytes of one of the 8 bad texts, or bytes that are not UTF-8) - the classic families send Binary frames only with a valid update; 25 % of these cases have depth-limited snapshots "
        "(corpus/C06E/C_domain_edges.ops: hand-written inputs of the same classes). "
        "On top of these, N/10 cases (ids cfg…, configuration-shape audit) from a fourth independent random stream have 4 / 5 / 7 / 11 / 12 subscribed instruments (symbols that are "
        "prefixes of one another: SYM1 / SYM10 / SYM11), venues of <= 8 changes and <= 4 updates per instrument and connection, each instrument subscribed-but-silent on a connection "
        "with probability 1/2, manager cells for n (60 %), n-1, n+1, 0 or 1 keys, 15-35 % noise frames of which the updates for a never-subscribed symbol extend a subscribed one in 70 % "
        "(SYM3 subscribed, SYM30 / SYM300 not), 25 % depth-limited (corpus/C06E/cfg_many_instruments.ops: 12 instruments with the break on the last and re-initialisation, 11 with "
        "one cell and the break on a middle one, 5 all silent without any cell). "
        "The corpus holds, besides the fixed vectors of the theorems, depth-limited connections (incl. the witness of the theorems) and REST snapshots listing a price twice. "
        "A case is distinct by the SHA-1 of its op lines and "
        "non-trivial when the implementation's observation blocks differ at least once")
ASSUMPTIONS = [
    "the venue's contract (as for C06): every deserialised depth update of a subscribed instrument is genuine for SOME id range of that instrument's venue (which messages arrive, "
    "how often, in which order is unrestricted), every REST snapshot of a subscribed instrument is the venue's book at its lastUpdateId, strictly ordered, one initial event per "
    "instrument key; needed by pipeline_book_is_truth / every_book_is_venue_truth / truth_after_reinit only - the factorisation, the frame-invariance theorems, stale_window and "
    "reinit_replaces_books hold for arbitrary inputs AS STATEMENTS ABOUT THE COMPOSED MODEL (see the entry on repeated prices for where model and code part)",
    "snapshot depth: the REST snapshot holds the best 100 levels per side only - the code's fetchers request `&limit=100` (binance/spot/l2.rs:54, futures/l2.rs:57; the harness "
    "bypasses fetch_snapshots and feeds snapshots of declared depth 1-4 over <= 6 prices instead). 'every REST snapshot is the venue's book at its lastUpdateId' in the full-book "
    "reading (SnapshotsGenuine in Contract) is therefore FALSE in the real wiring for an instrument deeper than 100 levels on a side, and with it the hypothesis of "
    "pipeline_book_is_truth, every_book_is_venue_truth, every_book_is_spec_book, truth_after_reinit. The reading that holds is per price level (ContractOn / SnapshotsGenuineOn "
    "with cover = coveredBy 100, justified by C06's truncated_snapshot_genuine_on): pipeline_book_is_truth_on / every_book_is_venue_truth_on prove 'the book holds the venue's "
    "amount as of the id it reports' at every price that the CURRENT connection's snapshot covers (all prices of a side on which it lists fewer than `limit` levels, otherwise the "
    "prices at least as good as its worst level) or that the venue changed since that snapshot's id; at any other price nothing is claimed and the managed book can differ "
    "silently (truncated_snapshot_pipeline_witness: no Reconnecting, no handler call, the managed book shows no bid while the venue's best bid is the uncovered second level). "
    "The full-depth theorems are the instance 'every price covered' (contract_is_on_everything) and apply as they stand to books of at most 100 levels per side",
    "repeated prices in a REST snapshot: OrderBook::new only sorts, so a snapshot listing a price twice leaves a side on which the code's binary_search_by and the scan of the "
    "C05 book model (the book component of `pipeline`) pick different levels (repeated_price_snapshot_witness: model 100:2, code 100:1). `drv_c06e model` therefore prints the "
    "manager's cells run with C05M's model of the real binary search (Result.booksBS) - the correspondence covers such snapshots (corpus) - and "
    "pipeline_cells_follow_the_code_search proves these cells ARE the pipeline model's books whenever every snapshot side is strictly ordered (C05's documented WFSnapshot "
    "precondition; consistent with C05's dirty_snapshot_duplicate_price_witness). pipeline_refines_spec / pipeline_factorises describe the code under that precondition only; "
    "the truth theorems ask SortedBook of every snapshot anyway, the oracle is silent on such a snapshot (it is no venue's book)",
    "StreamBuilder::subscribe / init (streams/builder/mod.rs:97-112: validate, sort, dedup of the subscriptions, tokio::spawn(forward_to) into an unbounded mpsc, select_all) "
    "sits between with_reconnection_events and with_error_handler in init_multi_order_book_l2_manager and is neither modelled nor exercised nor covered by the source "
    "tripwire: the harness applies with_error_handler directly to the reconnecting stream (one exchange, one stream; an empty subscription list, for which the real builder "
    "returns SubscriptionsEmpty, is run as a pipeline without instruments)",
    "no websocket message is buffered during subscription validation (Contract.noBuffered) - guaranteed for Binance as wired today because Binance::expected_responses is 1 "
    "(the validator returns right after the first response and buffers only after one); the pipeline model, the factorisation theorem and the correspondence cover buffered "
    "messages too, and buffered_update_before_snapshot_witness shows what goes wrong with them (MarketStream::init hands buffered outputs out BEFORE the snapshots)",
    "the harness cannot call MarketStream::init / init_market_stream / init_multi_order_book_l2_manager themselves (they open sockets): it repeats their bodies after `subscribe` / "
    "`fetch_snapshots` statement by statement with the real callee of every statement (see the header of harness/src/bin/c06e.rs). The order of those statements is therefore "
    "mirrored, not exercised; a PREBUILD source tripwire fails the proof obligations when the normalised text of the four mirrored snippets (lib.rs init tail, consumer.rs "
    "combinator chain, manager.rs error handler + map, binance/mod.rs expected_responses) changes",
    "subscription ids map to pairwise distinct instrument keys and the manager's map holds a book for every subscribed key (hypotheses of the truth theorems; "
    "init_multi_order_book_l2_manager inserts one per subscription); select_all over several exchanges' streams is not modelled (one stream)",
    "a poll is a function call (C12W) and the reconnecting stream is its list-level trace (C12): wakers, timer granularity and the interleaving of the manager task with readers of "
    "the Arc<RwLock<OrderBook>> cells are not modelled; `fuel` = number of polls per connection, any sufficient number gives the same result (fuel_irrelevant)",
    "the C12 model carries Nat items: the composition labels every output with its position in the table of all outputs and reads the labels back; labels_read_back proves the "
    "round trip is the identity",
    "exact rationals for Decimal; u64 ids as unbounded naturals; time_exchange / time_engine / time_received, the text of serde_json / tungstenite errors (handler calls are "
    "compared by kind: deser / terminated / ws / unident k) and the back-off sleeps (C12) are not compared; the driver's deserialiser reads the op's own tokens (glue: the harness "
    "sends the corresponding JSON through the real serde types)",
]
SOURCE_FILES = ["barter-data/src/lib.rs", "barter-data/src/streams/consumer.rs", "barter-data/src/books/manager.rs",
                "barter-data/src/exchange/binance/spot/l2.rs", "barter-data/src/exchange/binance/futures/l2.rs",
                "barter-data/src/exchange/binance/book/l2.rs", "barter-data/src/exchange/binance/mod.rs",
                "barter-data/src/streams/reconnect/stream.rs", "barter-data/src/subscriber/validator.rs",
                "barter-integration/src/stream/mod.rs", "barter-integration/src/protocol/websocket.rs",
                "barter-data/src/error.rs", "barter-data/src/books/mod.rs", "barter-data/src/books/map.rs"]

# Source tripwire for the wiring the harness has to mirror by hand (it cannot call functions that open sockets):
# comments stripped, whitespace removed; every listed snippet must occur, in this order, in its file.
def tripwire():
    import os, re, sys
    repo = os.environ.get("VERIF_REPO", "/repo")
    want = {
        "barter-data/src/lib.rs": [
            "letmuttransformer=Transformer::init(instrument_map,&initial_snapshots,ws_sink_tx).await?;",
            "letmutprocessed=process_buffered_events::<WebSocketParser,_>(&muttransformer,buffered_websocket_events,);",
            "processed.extend(initial_snapshots.into_iter().map(Ok));",
            "Ok(ExchangeWsStream::new(ws_stream,transformer,processed))"],
        "barter-data/src/streams/consumer.rs": [
            "Ok(init_reconnecting_stream(move||{letsubscriptions=subscriptions.clone();asyncmove{Exchange::Stream::init::<Exchange::SnapFetcher>(&subscriptions).await}})"
            ".await?.with_reconnect_backoff(policy,stream_key).with_termination_on_error(|error|error.is_terminal(),stream_key).with_reconnection_events(exchange))"],
        "barter-data/src/books/manager.rs": [
            "books.insert(subscription.instrument.key().clone(),Arc::new(RwLock::new(OrderBook::default())),);",
            ".init().await?.select_all().with_error_handler(|error|{",
            "Ok(OrderBookL2Manager{stream,books:OrderBookMapMulti::new(books),})"],
        "barter-data/src/exchange/binance/mod.rs": [
            "fnexpected_responses<InstrumentKey>(_:&Map<InstrumentKey>)->usize{1}"],
    }
    bad = []
    for f, snippets in want.items():
        text = open(os.path.join(repo, f)).read()
        text = re.sub(r"//[^\n]*", "", text)
        text = re.sub(r"\s+", "", text)
        pos = 0
        for sn in snippets:
            i = text.find(sn, pos)
            if i < 0:
                bad.append(f + ": `" + sn[:60] + "...`")
                break
            pos = i + len(sn)
    if bad:
        print("C06E wiring tripwire: code that harness/src/bin/c06e.rs mirrors by hand changed - " + "; ".join(bad))
        sys.exit(1)


PREBUILD = [["python3", "-c", "import sys; sys.path.insert(0, 'props'); import C06E; C06E.tripwire()"]]


def signature(ops, k, key, impl_line, spec_line):
    op = ops[k].split() if k < len(ops) else ["?"]
    rules = ops[0].split()[1] if ops and ops[0].startswith("init") and len(ops[0].split()) > 1 else "?"
    kind = op[0] + (":" + op[1] if op[0] == "f" and len(op) > 1 else "")
    if key.startswith("book"):
        clause = "book_differs_from_venue_at_reported_sequence"
    elif key.startswith("lv"):
        # depth-limited snapshot: the per-level claim at a covered / written / venue-changed price
        clause = "level_differs_from_venue_at_reported_sequence"
    elif key == "notices":
        want, got = spec_line.split()[-1], impl_line.split()[-1]
        clause = "break_or_end_not_reported" if want > got else "false_alarm"
    elif key == "nerr":
        clause = "handler_calls"
    else:
        clause = key
    return f"clause={clause} rules={rules} op={kind}"


CLAIM = False
TECHNIQUE = ("Lean 4: composition of the existing models (ExchangeStream poll loop + WebSocket parser, Binance L2 transformer/sequencers, reconnecting-stream combinators, "
             "order-book manager) along the wiring of MarketStream::init / init_market_stream / init_multi_order_book_l2_manager; factorisation to a documentation-level "
             "specification through each layer's own theorem (outputs_complete, errors_to_handler / run_handler_refines_spec, manager_applies_per_instrument) with a proved "
             "label/decode round trip for C12's Nat-valued streams; a state machine over connections (C06's Conn) proved equal to the specification's books, carrying C06's "
             "coupling invariant (ConnSynced) across frames, breaks, socket ends, failed and successful re-initialisations; frame-insertion congruences; correspondence with "
             "the real pipeline run in-process on every input prefix")
LEVEL_TEXT = ("Proof (sub-check of C06). lean/BarterModel/Props/C06E.lean, 42 theorems (38 results; enough_mono, exSnapshot_genuine, failing_frames and "
              "contract_is_on_everything are bookkeeping: monotonicity of the fuel bound, an evaluated example, the parser's table restated, an unfolding), none _partial, all for both rule sets, every deserialiser, instrument map, policy, "
              "initial books and for ALL connection lists and frame lists (Text / Binary / Ping / Pong / Frame / Close / transport error): (1) factorisation - "
              "connection_hands_out_its_items (C12W), labels_read_back (C12 labelling is faithful), pipeline_refines_spec (the composition of the four models = the specification: "
              "events the manager receives, handler calls, books, status), fuel_irrelevant, pipeline_factorises (events = per connection the delivered market events, then one "
              "Reconnecting if over; books = managerRun = per-instrument fold), no_stream_without_first_init, failed_init_is_invisible, events_only_grow; (2) the lifted C06 "
              "guarantee - fresh_connection_synced, pipeline_book_is_truth (under the venue contract, after every prefix: the pipeline's books are those of the connection state "
              "machine, every subscribed instrument's book denotes its venue's book as of the id its sequencer last admitted - also after a break, the breaking message is never "
              "applied - and when no connection is delivering the last event the consumer received is Reconnecting), every_book_is_venue_truth, every_book_is_spec_book (with zero-free snapshots the book is literally specBook venue last, the value the spec driver prints), state_knows_subscriptions, "
              "live_connection_is_current, stale_window (a breaking frame adds exactly one Reconnecting and changes no book and no handler call, for EVERY continuation of the "
              "socket: nothing after the break is read; the window lasts until the next connection that comes up); (3) housekeeping_invisible (deleting a Ping / Pong / raw Frame "
              "anywhere changes nothing at all), failed_frames_change_no_book (undeserialisable payload / Close / transport error: events / books / status are those of the input "
              "without the frame; none of them ends a connection) + failed_frame_goes_to_handler (a LIST-LEVEL lemma about the delivered items of one connection: the error "
              "is handed over after the errors of the frames before it unless a terminal error came earlier; there is no separate pipeline-level statement about `handled` for "
              "such a frame - it follows through pipeline_refines_spec only); (4) subscriptions_are_fixed, "
              "unsubscribed_symbol_contribution, unsubscribed_symbol_changes_no_book (one non-terminal Unidentifiable to the handler, no book changes); (5) reinit_replaces_books "
              "(right after a connection came up the book of every key it brought a snapshot for IS that snapshot, whatever earlier connections left), truth_after_reinit (the "
              "guarantee needs the contract only from the last successful initialisation on); frameKind_agrees and oracle_verdict_agrees (the oracle's frame classification is the parser's, its id-only verdict `told` is exactly the death of the connection), books_are_manager_cells (C05M's manager with time stamps and shared cells, fed the pipeline's events with any time stamps, holds the pipeline's books); "
              "buffered_update_before_snapshot_witness (why the contract excludes buffered messages); (6) after the review of the sub-checks, REST snapshots of LIMITED depth "
              "(the code asks for limit=100): fresh_connection_synced_on, pipeline_book_is_truth_on (under ContractOn - snapshots right on the prices they cover - for all "
              "inputs: books = state machine's; every subscribed instrument's book holds, at every price the CURRENT connection's snapshot covers or the venue changed since "
              "that snapshot's id, the venue's amount as of the id its sequencer last admitted, also after a break; or the consumer has been told), "
              "every_book_is_venue_truth_on (spelled out per instrument), current_snapshots_of_last_connection (which snapshots are 'current'), "
              "truncated_snapshot_pipeline_witness (with a depth-limited snapshot the full-book conclusion fails silently: ContractOn holds, Contract does not); (7) REST "
              "snapshots listing a price twice: books_follow_the_code_search / pipeline_cells_follow_the_code_search (the manager's cells run with the code's binary search "
              "are the pipeline model's books whenever every snapshot side is strictly ordered), repeated_price_snapshot_witness (the excluded point: model 100:2, code "
              "100:1); (8) the executable oracle's counters: oracle_frames_refine_spec, oracle_connection_refines_spec (`notices` and `nerr` per connection are the "
              "specification's). The oracle recomputes every constrained book from the simulated venue, never "
              "from the frames, and counts notices and handler calls from ids alone. Self-test: 5 hand-written changes of the pipeline's code (mutants/C06E_*.patch: manager stops on Reconnecting, no "
              "termination on error, Close made terminal, notice chained before the items, manager refusing older snapshots) are each reported with a concrete violating "
              "input, as are the four seeded C06 changes (seeded/C06a-d); a 6th change (snapshots put before the buffered outputs inside MarketStream::init, whose statement "
              "order the harness mirrors) is reported by the source tripwire as no-failing-input-found.")
LEVEL_NOTE = ("Trusted: Lean kernel; axioms propext/Classical.choice/Quot.sound only; the four hand-written models being composed (each tied to its code by its own check) and the "
              "composition itself, tied by sampled correspondence with the real pipeline (300 quick / 5 000 random + 1 640 enumerated thorough, every op = one full pipeline run); "
              "harness (mirrors the bodies of three functions that open sockets, guarded by a source tripwire), driver glue, orchestrator. Hypotheses of the truth theorems: the "
              "venue contract incl. nothing buffered before the snapshots (true for Binance since expected_responses = 1; the latent hazard otherwise is exhibited as a theorem), "
              "distinct instrument keys, a managed book per subscribed key. Snapshot depth: with the limit=100 snapshots of the real wiring 'book = venue book' is decided PER PRICE "
              "LEVEL (covered by the current snapshot or changed by the venue since - pipeline_book_is_truth_on), not for the whole book; truth_after_reinit and "
              "every_book_is_spec_book have no partial-depth form (left: they need the state machine's ghost carried through runConns_append / a canonical-form argument on "
              "price sets). Which oracle keys rest on theorems: `book<k>` = specBook venue last (every_book_is_spec_book + oracle_verdict_agrees + frameKind_agrees), "
              "`lv<k>:...` = the venue's amount at a known price (C06 level_oracle_sound: the executable test knownPrice and the printed value are consequences of "
              "book_is_truth_on; lifted by pipeline_book_is_truth_on). `notices` / `nerr` are tied PER CONNECTION: oracle_frames_refine_spec (all frame lists of a live connection whose transformer the oracle tracks) and "
              "oracle_connection_refines_spec (a connection that comes up, nothing buffered, on an oracle that is not live / not blocked: live iff not over, one more "
              "notice iff over, `nerr` grows by the errors among the delivered items - the very terms specStream / specHandled add). TEST-ONLY (written from the "
              "documentation, in no theorem, checked by running against the real pipeline only): the key `fin`; the composition of the oracle over SEVERAL connections "
              "(failed inits, connections prepared while one is open: `blocked`); the buffered phase (bufferedPhase); the `constrained` bookkeeping that decides where the "
              "oracle speaks about books. The model's `book` / `lv` lines are the manager's cells with the code's binary search (Result.booksBS), equal to the "
              "pipeline model's books for strictly ordered snapshots. `hc : forall c in conns, Contract` also constrains connections that are never reached (stronger than "
              "needed, harmless). Number glue: u64 ids >= 2^64 are `bad-op` in the harness and naturals in the model; Decimals beyond 28 digits round in the harness only. "
              "The books' readers (other holders of the Arc<RwLock<OrderBook>>) are NOT told about a break: "
              "OrderBookL2Manager swallows Reconnecting with a log line - the theorems speak about what the manager's stream yields.")
