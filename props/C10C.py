N = {"quick": 400, "thorough": 6000}
EXHAUSTIVE = {"quick": False, "thorough": True}
RULE = ("each random case exercises one section of the real code (share of cases): the channel (25 %: `mpsc_unbounded`, `Tx::send` / `Sink` send on "
        "several cloned transmitter handles, dropping handles, `UnboundedRx` as Iterator / Stream / `into_stream()`, dropping the receiver, a "
        "`ChannelTxDroppable::new` / `new_disabled` around one handle with `send` / `disable`; 1-30 ops quick, 1-60 thorough), `ChannelTxDroppable` over a "
        "custom `Tx` that refuses multiples of 2/3/5/7/1000 and counts drops (8 %), `merge` over two `UnboundedRx::into_stream()`s polled by hand with a "
        "no-op waker (22 %: sends on either side, transmitter drops, polls at 30/50/70 %), `merge` consumed by a task of a real tokio runtime with two "
        "concurrent producer tasks (8 %: current-thread and 1/2/4 worker threads, 0-4 / 0-6 items per side, seeded yield points, one or both producers "
        "dropping their transmitter; the outcome is compared as (left subsequence, right subsequence) against the SET of outcomes the specification "
        "allows, printed by the Lean side as `{..|..}`), `IndexedStream` over an `UnboundedRx` with an indexer failing on multiples of 3 (8 %), "
        "`Snapshot` / `SnapUpdates` accessors (3 %), a producer handing out `SnapUpdates {snapshot, updates: rx}` and forwarding updates through a "
        "`ChannelTxDroppable` to a consumer that folds them (11 %), and the engine run loops (15 %: a real `Engine` with scripted strategy, history of "
        "0-9 / 0-16 events incl. commands, order snapshots, fills, shutdown, stepped with `process_with_audit`, then `rundrop sync|async K` = three fresh "
        "engines on the same history: `sync_run_with_audit` / `async_run_with_audit` over a real channel whose receiver is drained and dropped inside the "
        "K-th `feed.next()`, `sync_run` / `async_run` without audit, and the audited runner with `ChannelTxDroppable::new_disabled()`; compared: sequence "
        "numbers and terminal flags of the records received, transmitter state, kind of the returned record, final sequence counter, orders / positions / "
        "prices / trading state of each engine, and PartialEq of the three whole `EngineState`s). Thorough additionally enumerates every history of length "
        "<= 7 over {ml, mr, mcl, mcr, mpoll} followed by three polls (12 108 valid ones) and every history of length <= 7 over {dsend, disable, poll, "
        "droprx} on a wrapped channel (6 305). 14 committed corpus cases (corpus/C10C) pin the edge behaviours (items of the surviving input lost at "
        "the end of a merge, pending polls flipping the fairness flag, transient Tx failure disabling for good, Iterator::next waiting for another "
        "thread's send, receiver dropped before the first / after the last event of a run). A case is distinct by the SHA-1 of its op lines and non-trivial when the implementation's observation "
        "blocks differ at least once")
ASSUMPTIONS = [
    "a tokio unbounded mpsc channel is modelled as a FIFO list + live-sender count + receiver-alive flag; send / recv / drop are atomic steps "
    "(tokio's channel is linearizable); `TryRecvError::Empty` is never spurious when no send is in flight (single-threaded correspondence)",
    "wakers and wake-ups are not modelled: a stream is the state machine of its `poll_next`; the poll-level correspondence polls by hand with a no-op "
    "waker outside any runtime (tokio's cooperative budget is unconstrained there); the runtime-level `mrun` cases tie the waker path by set membership only",
    "`<UnboundedRx as Iterator>::next` busy-waits while the queue is empty and a transmitter exists: modelled as the result `spins`; the harness never "
    "makes that call (it checks `is_empty()` / `sender_strong_count()` first), so the `spins` rows are tied by reading the three-line loop only",
    "tokio-stream 0.1.19 `Map` / `Chain` / `Fuse` / `Merge` / `MapWhile` and futures-util 0.3.34 `once` are modelled one by one from their sources "
    "(outside /repo); a change of those crates' behaviour is visible to the correspondence but not to the source hashes",
    "the merge theorems are about two channel receivers as inputs (the use in ExecutionManager::init has a channel on the left and a reconnecting "
    "stream on the right); for arbitrary input streams only the combinator definitions are generic",
    "engine run loops: the engine is abstract in the theorems (`Runner`: process_with_audit, audit(FeedEnded), is_terminal); the driver instantiates it "
    "with the C10 engine model (`auditRunner`), so everything C10 assumes about that model applies to the `rundrop` observations; "
    "`EngineMeta::time_start` and timestamps inside records come from `HistoricalClock::time()` (wall clock) and are excluded from the comparison",
    "tracing output (the `warn!` of ChannelTxDroppable::send, the `info!` lines of the runners) and the derived Eq / Ord / Serialize impls are not modelled",
]
SOURCE_FILES = ["barter-integration/src/channel.rs", "barter-integration/src/snapshot.rs", "barter-integration/src/stream/merge.rs",
                "barter-integration/src/stream/indexed.rs", "barter/src/engine/run.rs", "barter/src/engine/audit/mod.rs",
                "barter/src/system/builder.rs"]


def signature(ops, k, key, impl_line, spec_line):
    op = ops[k].split()[0] if k < len(ops) else "?"
    return f"clause={key}/op={op}"


CLAIM = False
TECHNIQUE = ("Lean 4: channel = FIFO list with liveness flags; ChannelTxDroppable = two-state machine over an arbitrary `Tx`; refinement of the "
             "queue-based system to a log-with-cursor specification by a simulation relation preserved by every operation (induction over histories); "
             "tokio-stream combinators modelled one by one and `merge` proved equal to a flat two-queue machine, then invariant + MergeSpec predicate "
             "for all send/close/poll histories, fairness and promptness; run loops over an abstract engine: independence of engine evolution from "
             "the audit transmitter for all Tx / worlds / environments, audited run = operation history of the transmitter-receiver system; "
             "correspondence with the real channel, ChannelTxDroppable, merge (poll level and under a real scheduler), IndexedStream and run loops")
LEVEL_TEXT = ("Proof (sub-check of C10). lean/BarterModel/Props/C10C.lean, all for unbounded histories / arbitrary items: CHANNEL - send is Ok iff the "
              "receiver is alive (send_ok_iff_receiver_alive, send_effect), FIFO (chan_fifo), end of stream iff drained and no transmitter left "
              "(recv_done_iff), Iterator view busy-waits exactly where the Stream view is pending (iterator_spins_iff, iterator_agrees_with_stream), "
              "operation-by-operation refinement of the bare channel to an append-only log with a read cursor (chan_refines_spec_stepwise). "
              "CHANNELTXDROPPABLE over ANY Tx - disabled send is a no-op on every world, new_disabled sends nothing, never re-enabled, transparent while "
              "sends succeed, the first failed send disables + drops the wrapped Tx and all later items have no effect (disabled_send_is_noop, "
              "new_disabled_sends_nothing, never_reenabled, transparent_while_ok, first_failure_disables, disable_idempotent, flaky_delivers_prefix). "
              "TRANSMITTER + RECEIVER, every history of send / disable / recv / drop-receiver - refines_spec (simulation with the log-with-cursor spec), "
              "received <+: accepted <+: offered (in order, nothing twice, nothing after the first failure), nothing lost while the receiver lives, "
              "active => everything accepted, no cut => everything delivered, disabled is permanent, new_disabled receives nothing. SNAPSHOT - functor "
              "laws; replica_tracks_producer / replica_current_when_caught_up: folding the received updates onto the snapshot gives the producer's "
              "state after that many updates. MERGE - the composition map(Some).chain(once(None)) x2 / Merge / map_while / fuse over two receivers is the "
              "flat alternating two-queue machine (merge_is_flat_machine), every history keeps one of two shapes (merge_shape) and satisfies the "
              "doc-comment specification MergeSpec: per-input prefix, interleaving, ended only because a closed input was handed over completely "
              "(merge_satisfies_spec, interleave_exactly_once, merge_nothing_lost), fused (merge_fused), pending iff nothing to hand over and nobody "
              "closed (merge_pending_iff), fair (merge_fair: two polls serve both inputs), prompt (merge_prompt: ends within two polls of an input being "
              "closed and drained, at most one more item), and the executable outcome set used for runs under a real scheduler is sound "
              "(merge_outcome_allowed); IndexedStream maps item by item incl. errors (indexed_maps_every_item). RUN LOOPS - for every engine, feed, Tx, "
              "world and environment the audited runners leave the engine and the returned record exactly as the plain runners "
              "(audit_does_not_affect_engine), a disabled transmitter never touches its world, the returned record is the last and only terminal one "
              "(shutdown_record_is_last), an audited run over a channel IS an operation history of the transmitter + receiver system "
              "(audited_run_is_history) hence the consumer holds a prefix of the records whatever it does (audit_received_prefix_of_ticks) and all of "
              "them if it keeps listening (audit_complete_while_listening), a consumer dropping at the K-th event holds exactly the first K "
              "(rundrop_receives_exact_prefix), and with the C10 engine the records are C10's audit stream (run_loop_is_C10_model) so those K carry "
              "consecutive sequence numbers (audit_consumer_holds_consecutive_prefix). Tied to the code by running the same operation sequences through "
              "the real channel, ChannelTxDroppable, merge, IndexedStream, Snapshot / SnapUpdates and sync/async run loops of a real Engine on every run.")
LEVEL_NOTE = ("Trusted: Lean kernel; axioms propext/Classical.choice/Quot.sound only; the hand-written model incl. its reading of tokio-stream 0.1.19 / "
              "futures-util 0.3.34 combinators and of tokio's unbounded channel (sampled correspondence: 400 quick / 6 000 random + 18 413 enumerated "
              "thorough); harness and driver. Wakers, cooperative budgeting, cross-thread visibility of channel operations are not modelled (atomic steps).")
