N = {"quick": 400, "thorough": 6000}
EXHAUSTIVE = {"quick": False, "thorough": True}
RULE = "placeholder"
ASSUMPTIONS = []
SOURCE_FILES = ["barter-integration/src/channel.rs", "barter-integration/src/snapshot.rs", "barter-integration/src/stream/merge.rs",
                "barter-integration/src/stream/indexed.rs", "barter/src/engine/run.rs", "barter/src/engine/audit/mod.rs",
                "barter/src/system/builder.rs"]
CLAIM = False
LEVEL_TEXT = "placeholder"
