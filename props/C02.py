N = {"quick": 500, "thorough": 30000}
EXHAUSTIVE = {"quick": False, "thorough": True}
RULE = ("random fill sequences (length 1-30 quick / 1-60 thorough) on a bare PositionManager (50 %) or through a real Engine::process with 1-3 "
        "instruments (50 %); quantities/prices/fees from small grids (regimes: unit grid, tiny 1e-4, huge 1e6, mixed), 15/30/45 % of the fills "
        "that meet an open position are exact closes, mirror flips, flips with a grid remainder or half reductions; duplicate trade ids 3 %; "
        "12 % of the cases additionally carry inputs outside the property's quantifier (negative quantity, rebate, second instrument on a bare "
        "manager, unknown instrument -> panic) which are compared model-vs-code only. Thorough additionally enumerates every sequence of length "
        "<= 4 over side x qty{1,2,3} x (price,fee){(100,1),(150,0)} (22 620 sequences). A case is distinct by the SHA-1 of its op lines and "
        "non-trivial when the implementation's observation changes at least once")
ASSUMPTIONS = [
    "every fill has quantity > 0 (quantity = 0 makes rust_decimal panic on a division by zero in approximate_remaining_exit_fees; rejected as bad-op by harness and model)",
    "all fills of a history are on one instrument (the engine routes by instrument; per-instrument independence is theorem frame_other_instrument)",
    "exact rational arithmetic: the 'up to decimal rounding' of the property is the 1e-18 tolerance of the correspondence, not part of the theorems",
]
SOURCE_FILES = ["barter/src/engine/state/position.rs", "barter/src/engine/state/instrument/mod.rs", "barter-execution/src/trade.rs",
                "barter/src/engine/state/mod.rs"]
CLAIM = True
TECHNIQUE = "Lean 4: invariant by induction over fill histories relating the PositionManager model to net / cash / fee sums of the history; correspondence of the model with PositionManager::update_from_trade and Engine::process"
LEVEL_TEXT = "TODO"
LEVEL_NOTE = "TODO"


def signature(ops, k, key, impl_line, spec_line):
    op = ops[k].split() if k < len(ops) else []
    return f"clause={key}"
