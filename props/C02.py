N = {"quick": 500, "thorough": 30000}
EXHAUSTIVE = {"quick": False, "thorough": True}
RULE = ("random fill sequences (length 1-30 quick / 1-60 thorough) on a bare PositionManager (50 %) or through a real Engine::process with 1-3 "
        "instruments (50 %); quantities/prices/fees from small grids (regimes: unit grid, tiny 1e-4, huge 1e6, mixed), 15/30/45 % of the fills "
        "that meet an open position are exact closes, mirror flips, flips with a grid remainder or half reductions; duplicate trade ids 3 %; "
        "12 % of the cases additionally carry inputs outside the property's quantifier (negative quantity, rebate, second instrument on a bare "
        "manager, unknown instrument -> panic) which are compared model-vs-code only. Thorough additionally enumerates every sequence of length "
        "<= 4 over side x qty{1,2,3} x (price,fee){(100,1),(150,0)} (22 620 sequences). On top of these, from a generator of their own (N/8 cases each): "
        "DECIMAL SHAPES - the same histories with 8-decimal prices / fees, quantities using all four decimals, and 40 % of the operands written NOT normalised "
        "(`1.5000`, `1.500000`) so that equal values meet with different scales; EXACT HUGE magnitudes - whole quantities of 1e8..4e9 units at prices around 1e6 "
        "(notional 1e14..4e15; the grids above stop at 7e8) where every quantity ratio the code forms is a power of two (a position is increased only by doubling, "
        "at most three times per life, reduced by halving, closed exactly, flipped to its mirror, or flipped with a remainder at zero fee), so rust_decimal computes "
        "the entry average, the pro-rata fees and the unrealised estimate without rounding and the tolerance plays no role. INPUT-DOMAIN family (ids d*, l*; N/5 + 3 cases in three classes, own generator): "
        "TIMES - exchange timestamps in any order (40 % decreasing, 20 % equal, 20 % from {-1 day, -1 s, -1, 0, 1, 1 s, +1 day, +31 years}; everything above only moves time forward by 0-5 ms); "
        "LOTS - quantities with 8 decimals (1e-8, 2e-8, 5e-7, 0.12345678, 0.99999999, 1, 2.5) at prices 1e-8 .. 65 432.10987 with exact closes / mirror flips / remainders in that scale "
        "(through the Engine without the 1e-8 price and the 0.5 fee: see ASSUMPTIONS); REBATES - a third of the fees negative and, on the bare manager, 3 % of the prices zero or negative (outside the quantifier: model-vs-code only; through the Engine a position closed at an average entry price of 0 makes the tear sheet divide by zero); "
        "and LONG - 3 (thorough: 40) cases of one position built from 100-160 (thorough: -400) fills, increases and partial reductions, then exact close, reopen, mirror flip, exact close. CONFIGURATION-SHAPE family (ids cfg*; N/6 + 4 cases, own generator; op `init enginex <E|D> <links> <spec>+`): the Engine is assembled from 1-6 instruments spread over 1-3 exchanges whose labels are a random subset of {BinanceSpot, Coinbase, Kraken} "
        "(so the account event's ExchangeIndex is that of the instrument's exchange, not always 0, and the order of addition differs from IndexedInstruments' exchange-first index order), of all four instrument kinds (spot 40 % / perpetual / future / option with contract sizes 10 / 0.1 / 100 and a settlement asset), "
        "TradingState Enabled or Disabled at start (50 %; the strategy never emits), every exchange's MultiExchangeTxMap slot Some or None (35 % None: tracked but not traded), in 40 % of the multi-instrument cases one instrument that is never filled; in-domain grid / tiny fills as in the first family. "
        "A case is distinct by the SHA-1 of its op lines and "
        "non-trivial when the implementation's observation changes at least once")
ASSUMPTIONS = [
    "every fill has quantity > 0 (quantity = 0 makes rust_decimal panic on a division by zero in approximate_remaining_exit_fees; rejected as bad-op by harness and model)",
    "exchange timestamps of the fills are arbitrary integers in any order (decreasing, equal, negative): the property does not mention time; the spec's `life` / `exlife` keys take time_enter from the fill that opened the position and time_exit from the fill that closed it, whatever their order",
    "through the Engine a closed position also feeds the tear sheet (pnl return = pnl / (entry price x max quantity), squared by Welford's recurrence): a notional of 1e-16 with a fee of 0.5 gives a return of 5e15 whose square overflows rust_decimal and Engine::process panics in statistic::algorithm::welford_online (Decimal overflow - not modelled, code outside this property's anchors; the bare PositionManager handles the same fills). 1e-8 prices combined with 1e-8 lots are therefore generated for the bare manager only",
    "set-up: the property does not mention how the position manager is reached; through the Engine the state is built by EngineState::builder (which has no way to start with an open position: every history starts flat; an open position at start is a history prefix), HistoricalClock, a strategy that never emits orders and DefaultInstrumentMarketData. Exchanges / instrument kinds / contract sizes / trading state / presence of an execution link are varied by the cfg* family and are invisible to model and spec (`init enginex ...` = `init engine <number of instruments>`); an account event always carries the exchange of the instrument of its fill",
    "all fills of a history are on one instrument (the engine routes by instrument; per-instrument independence is theorem engine_routes_per_instrument)",
    "exact rational arithmetic: the 'up to decimal rounding' of the property is the 1e-18 tolerance of the correspondence, not part of the theorems",
    "magnitudes: generated notionals stay below 4e15 and, above 1e9, inside the regime that rust_decimal computes exactly; beyond that the 1e-18 tolerance (relative to the "
    "compared value, not to the magnitudes that produced it) would flag rounding of differences of large values, and for price x quantity >= 7.9e28 the real code panics "
    "(`multiplication overflowed` in update_price_entry_average; witness kept outside the corpus) - overflow and rounding of rust_decimal are not modelled",
    "the arithmetic kernels calculate_price_entry_average / calculate_pnl_realised / calculate_pnl_unrealised / approximate_remaining_exit_fees (position.rs) and enum Side (barter-instrument/src/lib.rs) are additionally tied to the source by translation: tools/rust2lean.py regenerates their Lean definitions from the current Rust text before every build (PREBUILD) and theorem kernels_agree_with_source proves them equal to the model's definitions for all arguments; trusted there: the translator's reading of the small Rust subset it accepts (it rejects everything else) and its fixed Decimal prelude (abs, is_zero, checked_div = None exactly on a zero divisor, MAX/MIN)",
]
SOURCE_FILES = ["barter/src/engine/state/position.rs", "barter/src/engine/state/instrument/mod.rs", "barter-execution/src/trade.rs",
                "barter/src/engine/state/mod.rs", "barter-instrument/src/lib.rs"]
PREBUILD = [["python3", "tools/rust2lean.py", "--require", "position"],
            ["python3", "tools/rust2lean_sm.py", "--require", "position_sm"]]
CLAIM = True
TECHNIQUE = "Lean 4: invariant by induction over fill histories relating the PositionManager model to net / cash / fee sums of the history; correspondence of the model with PositionManager::update_from_trade and Engine::process"
LEVEL_TEXT = ("Proof. Lean theorems over the PositionManager model (lean/BarterModel/Props/C02.lean), for every finite fill list on one instrument with "
              "quantity > 0 (no bound on length or magnitudes; price > 0 and fee >= 0 are not even needed), exact over the rationals: "
              "size_is_net (signed open quantity = net signed filled quantity, side = sign, flat iff net = 0, quantity_abs = |net|); "
              "exit_iff_cross / exits_count (a PositionExited is returned by a fill iff the net was non-zero before and is zero or of opposite sign after; "
              "the number of records over a history is the number of such fills), "
              "crossing_fill_splits / exact_close / opening_fill (a crossing fill opens the opposite position with the remainder, entry fee fee*rem/q, and "
              "charges fee*closed/q to the closed one; an exact close charges the whole fee; a fill at net zero opens from that fill alone); "
              "conservation (sum of closed pnl_realised + open pnl_realised = sell proceeds - buy cost - fees + signed open quantity * average entry price); "
              "fees_conserved (entry + exit fees over all positions = fees of the fills); trade_ids (every fill id is in the position it leaves open and in the "
              "record it produces) and position_life / exit_record (trades, quantity_abs_max and time_enter are exactly those of the history-defined life of the "
              "position; 0 < quantity_abs <= quantity_abs_max); mismatch_ignored; engine_routes_per_instrument + engine_conservation (with interleaved fills on "
              "any number of instruments every instrument's manager is the run of its own fills, so all of the above hold per instrument). All full strength; "
              "no _partial theorem. 'Up to decimal rounding' is the exact identity over Q; rust_decimal rounding is covered only by the 1e-18 tolerance of the "
              "correspondence runs.")
LEVEL_NOTE = ("Trusted: Lean kernel; axioms propext/Classical.choice/Quot.sound only; the hand-written model of position.rs (tied by sampled correspondence against "
              "PositionManager::update_from_trade and against Engine::process + EngineOutput::PositionExit: 500 quick / 30k random + all 22 620 sequences of "
              "length <= 4 over a 12-symbol alphabet thorough, every field of Position / PositionExited compared after every fill, division-derived fields to "
              "1e-18); harness, driver, orchestrator. Assumes quantity > 0 (quantity = 0 panics in rust_decimal: outside the quantifier) and exact arithmetic "
              "(Decimal rounding / overflow not modelled; products above ~1e8 are kept out of the generated cases because their rounding exceeds the tolerance). "
              "The whole Position / PositionManager state machine (Position::from(&Trade), PositionExited::from, update_pnl_*, update_from_trade, PositionManager::update_from_trade) is likewise regenerated by tools/rust2lean_sm.py (Generated/Machines.lean) and proved equal to the model (state_machine_agrees_with_source). "
              "Additionally tied by translation: the Lean definitions of the kernels calculate_price_entry_average / calculate_pnl_realised / calculate_pnl_unrealised / approximate_remaining_exit_fees (position.rs) and enum Side (barter-instrument/src/lib.rs) are regenerated from the current source on every run (tools/rust2lean.py) and proved equal to the model's (kernels_agree_with_source), so a change of such a kernel breaks a proof obligation directly; the translator and its Decimal prelude are trusted for that tie.")


def _frac(x):
    from fractions import Fraction
    return Fraction(x)


def signature(ops, k, key, impl_line, spec_line):
    """violated clause + class of the fill (open / increase / reduce / close / flip) computed from the ops alone"""
    mode = "pm"
    nets = {}
    cls = "?"
    for j, line in enumerate(ops[: k + 1]):
        t = line.split()
        if t[0] == "init":
            mode = t[1]
            continue
        if t[0] != "fill" or len(t) != 8:
            continue
        slot = t[2] if mode in ("engine", "enginex") else "0"
        q = abs(_frac(t[6]))
        before = nets.get(slot, 0)
        after = before + (q if t[4] == "B" else -q)
        nets[slot] = after
        if j == k:
            if before == 0:
                cls = "open"
            elif after == 0:
                cls = "close"
            elif (before > 0) != (after > 0):
                cls = "flip"
            elif abs(after) > abs(before):
                cls = "increase"
            else:
                cls = "reduce"
    return f"clause={key}/fill={cls}/mode={mode}"
