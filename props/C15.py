from fractions import Fraction

N = {"quick": 300, "thorough": 10000}
EXHAUSTIVE = {"quick": False, "thorough": True}
RULE = ("3 fixed scenarios (the F5 and F6 witnesses, a short with stale market data) + random interleavings (1-3 instruments, length <= 30/60, "
        "30/50/70 % fills, 0/20/50 % of the market events with an old exchange time) of fills (openings with and without fee, increases, "
        "reductions, exact closes, flips), public trades, two-sided L1 books and price-less market items (candle / liquidation), every op "
        "through the real Engine::process; plus a separately seeded family (N/2 cases, ids d...) over four value regimes - the original tables, "
        "tiny prices (down to 1e-8) with quantities up to 1 234 567, large prices (up to 9 999 999.9) with quantities down to 0.0001, zero and "
        "negative MARKET prices (public trades and L1 books at 0 / below 0; fills stay positive) - with 1-8 instruments spread over 1-3 exchanges "
        "(`init n x`), traffic concentrated on 1-3 of them, public trades of both taker sides, L2 order-book snapshots besides candles and "
        "liquidations as the price-less item, and L1 payload times before and after the event time (15 %); every product stays below 1e8 so that "
        "Decimal + - x are exact; plus a separately seeded family (N/2 cases, ids cfg...) with the same traffic over the set-up shapes "
        "`init n x <kinds> <on|off> <links> <via>`: instruments of kind spot / perpetual (contract size 10) / future (0.01) / option (100) / spot with a "
        "contract-quantity InstrumentSpec mixed on one engine, trading enabled with a strategy that emits an open request after every event (60 %), the "
        "execution link of every exchange healthy / closed / missing (tracked but not traded) / refusing, and the events fed through Engine::process, "
        "process_with_audit or EngineState::update_from_market / update_from_account directly; thorough additionally enumerates every sequence of length <= 4 over 13 symbols on one instrument "
        "(8 fills = side x qty{1,2} x (price,fee){(100,1),(150,0)}, 2 trades, 2 L1 books, 1 price-less item; 30 940 sequences). A case is distinct "
        "by the SHA-1 of its op lines and non-trivial when the implementation's observation (price, position, pnl_unrealised per instrument) "
        "changes at least once")
ASSUMPTIONS = [
    "InstrumentData = DefaultInstrumentMarketData (price() = volume-weighted mid of the held L1 if it has both sides, else last trade price)",
    "every fill has price > 0 (market prices may be zero or negative; a fill price <= 0 is `bad-op` on both sides: a position whose entry average is exactly 0 - one fill at 0, or fills at -5 and 5 - panics when it is exited, calculate_pnl_return divides by price_entry_average * quantity_abs_max, the boundary documented for C16)",
    "every fill has quantity > 0 (the code takes |quantity|; a zero-quantity opening fill makes Decimal divide by zero) and OrderBookL1 payloads carry both sides with non-negative amounts that do not sum to zero (Decimal division by zero otherwise)",
    "every event names an instrument the engine was built with (the code panics otherwise; harness and model both report `panic`)",
    "event times are after the Unix epoch (the default OrderBookL1 carries the epoch as last_update_time), trade prices are finite f64 that Decimal::from_f64 represents exactly",
    "exact rational arithmetic: Decimal rounding of the L1 mid / entry average is compared to 1e-18, not modelled",
    "reading of the text: 'the instrument's current price' is InstrumentDataState::price() after the event was processed, and 'newer market data' is any market item for the instrument that arrives after the fill (arrival order, not exchange time): once a price is held, a stale or price-less item also re-evaluates the estimate at price(), which may be older than the last fill's price",
    "trading disabled (Engine::process generates no orders) except in the cfg family, where the harness strategy emits one open request per event and send failures on closed / missing / refusing links are expected (the `audit-errors` line is then not printed); GlobalData = DefaultGlobalData (no-op)",
    "set-up shapes: the starting state has no position (EngineStateBuilder offers balances only; positions are reached by fills), fills arrive as AccountEventKind::Trade (an AccountSnapshot carries orders and balances, no position or fill), the estimate is in price x quantity units for every instrument kind (the documented formula reads neither contract_size nor the settlement asset); clock = HistoricalClock",
    "the arithmetic kernels calculate_pnl_unrealised / approximate_remaining_exit_fees (position.rs), volume_weighted_mid_price and struct Level (barter-data/src/books/mod.rs), enum Side (barter-instrument/src/lib.rs) are additionally tied to the source by translation: tools/rust2lean.py regenerates their Lean definitions from the current Rust text before every build (PREBUILD) and theorem kernels_agree_with_source proves them equal to the model's definitions for all arguments; trusted there: the translator's reading of the small Rust subset it accepts (it rejects everything else) and its fixed Decimal prelude (abs, is_zero, checked_div = None exactly on a zero divisor, MAX/MIN)",
]
SOURCE_FILES = ["barter/src/engine/state/mod.rs", "barter/src/engine/state/instrument/mod.rs", "barter/src/engine/state/position.rs",
                "barter/src/engine/state/instrument/data.rs", "barter/src/engine/mod.rs", "barter-data/src/books/mod.rs",
                "barter-data/src/subscription/book.rs", "barter-instrument/src/lib.rs"]
PREBUILD = [["python3", "tools/rust2lean.py", "--require", "position,book"]]


def signature(ops, k, key, impl_line, spec_line):
    """Classifies an oracle failure by the clause of the property and the event that last determined the
    value the property demands: re-plays the op lines 0..k for the instrument of the failing key."""
    if not key.startswith("upnl"):
        if key.startswith("price"):
            return "clause=current_price"
        return "clause=" + key
    i = int(key[4:])
    net = Fraction(0)
    priced = False
    last = None
    for op in ops[: k + 1]:
        t = op.split()
        try:
            if t[0] == "fill" and len(t) == 8 and int(t[2]) == i:
                q = Fraction(t[6])
                if q <= 0:
                    continue
                before = net
                net = net + q if t[4] == "B" else net - q
                if before == 0 or (before > 0) != (net > 0) and net != 0:
                    last = "opening_fill"
                elif net == 0:
                    last = "close"
                else:
                    last = "increase_or_reduce"
            elif t[0] in ("trade", "l1", "other") and int(t[1]) == i:
                if t[0] != "other":
                    priced = True
                if priced:
                    last = "market"
        except (ValueError, IndexError, ZeroDivisionError):
            continue
    if last == "opening_fill":
        # the known finding is exactly: the code stores 0 where the estimate is non-zero
        it = impl_line.split()
        if len(it) == 2 and it[1] in ("~0", "0"):
            return "clause=after_fill/opening_fill"
        return "clause=after_fill/opening_fill/value_not_zero"
    if last == "increase_or_reduce":
        return "clause=after_fill/increase_or_reduce"
    if last == "market":
        return "clause=after_market"
    return "clause=unexpected/" + str(last)


CLAIM = True
TECHNIQUE = ("Lean 4: single-step law of InstrumentState/EngineState::update_from_market (refreshed), simulation between the engine model and a "
             "history spec that tracks the price the estimate must be evaluated at (never_stale, induction over all interleavings of fills and "
             "market events), arm-wise law of Position::update_from_trade (after_fill_partial), kernel-evaluated counter-example for the opening "
             "fill; correspondence of the model with Engine::process")
LEVEL_TEXT = ("Proof, with one clause refuted (known finding F6). Lean theorems over the engine model (lean/BarterModel/Props/C15.lean), unbounded in "
              "the number of instruments and in the history: refreshed - from ANY state, after a market event on instrument i, if a position is open and "
              "price() = some p then pnl_unrealised = estimate(p) (estimate = price move on the open quantity minus entry fees pro rata of "
              "open/max quantity), nothing else of the position and no other instrument changes; never_stale - for every interleaving of fills "
              "(quantity > 0) and market events from the initial state, every open position's pnl_unrealised equals the estimate at the mark "
              "(= fill price after a fill, = current price after any market event once a price exists), EXCEPT while the mark comes from a fill that "
              "opened the position (first fill on a flat instrument / remainder of a flip), where it is 0 and the estimate is -fees_enter; "
              "after_fill_partial - after a fill that increases or reduces an existing position pnl_unrealised = estimate(fill price). MISSING from the "
              "full property: the opening fill / flip remainder - there the property is FALSE in the code (opening_fill_not_estimate, "
              "flip_remainder_not_estimate: proved witnesses, fill Buy 2 @ 100 fee 1 on a flat instrument gives 0, estimate -1; opening_fill_zero "
              "gives the general law pnl_unrealised = 0 and estimate = -fees_enter), test-pinned in the repo, listed in known_findings.txt "
              "(clause=after_fill/opening_fill). The model is tied to the code by running the same histories through the real Engine::process.")
LEVEL_NOTE = ("Trusted: Lean kernel; axioms propext/Classical.choice/Quot.sound only; the hand-written model (position arms = C02's model, registers = "
              "C09's model), tied by sampled correspondence (300 quick / 10k random + all 30 940 sequences of length <= 4 over 13 symbols thorough); "
              "harness and driver. Assumes DefaultInstrumentMarketData, fills with quantity > 0, two-sided L1 payloads whose amounts do not sum to "
              "zero, known instruments, exact arithmetic (Decimal rounding compared to 1e-18). The oracle (spec driver) demands the estimate after "
              "EVERY fill, so opening fills with a non-zero fee are reported on every run as KNOWN-FINDING clause=after_fill/opening_fill. "
              "Additionally tied by translation: the Lean definitions of the kernels calculate_pnl_unrealised / approximate_remaining_exit_fees (position.rs), volume_weighted_mid_price and struct Level (barter-data/src/books/mod.rs), enum Side (barter-instrument/src/lib.rs) are regenerated from the current source on every run (tools/rust2lean.py) and proved equal to the model's (kernels_agree_with_source), so a change of such a kernel breaks a proof obligation directly; the translator and its Decimal prelude are trusted for that tie.")
