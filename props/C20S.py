N = {"quick": 400, "thorough": 4000}
EXHAUSTIVE = {"quick": False, "thorough": True}
RULE = ("each case = one real System built by the real SystemBuilder (build + init) on a current-thread tokio runtime with a paused clock: "
        "feed mode iter / stream / not set, audit on / off / not set, initial trading state on / off / not set, 1-3 spot instruments on a mocked "
        "exchange (latency 0 / 50 / 200 ms of virtual time; initial balances chosen so that part of the orders is rejected) and in 35 % of the cases "
        "one more instrument on a second exchange WITHOUT execution configuration; a never-ending market stream owned by the harness; then 1-5 "
        "(thorough 1-8) segments of 0-3 ops out of {mkt (1-3 trades, half of them asking the strategy for an order), mktre, call open (1-2 requests, "
        "client order ids from a pool of 4), call cancel, call close <filter>, call cancel_orders <filter>, call trading on|off, take_audit}, half of "
        "the segments closed by `settle` (await quiescence by tokio yields only), 30 % by `sleep 10|50|100|250` (tokio::time::advance, then settle), "
        "20 % not at all; in 16 % of the cases a request for the exchange without execution link (the engine stops on the unrecoverable error) directly "
        "followed by `settle`, after which further calls, shutdown/abort (they panic) or `join` follow; the case ends with shutdown (55 %) or abort, "
        "10 % add a call after the handle was consumed. Thorough additionally enumerates every op sequence of length <= 3 over 8 symbols (market trade "
        "with reaction, trading on, trading off, open, close, cancel_orders, settle, sleep 50) for {iter,stream} x {audit on,off} at latency 50 ms "
        "(2 340 cases). A case is distinct by the SHA-1 of its op lines and non-trivial when the implementation's observation blocks differ")
ASSUMPTIONS = [
    "current-thread tokio runtime with a paused clock; the harness never relies on auto-advance: virtual time moves only in `sleep` ops "
    "(mock exchange latency 0 / 50 / 200 ms; the 1 s request timeout of the execution manager and the reconnection back-off are never reached)",
    "the harness awaits only in `settle` / `sleep` (until everything sent so far has been processed and every reaction that is due has come back) "
    "and in shutdown / abort / join; between two awaits only handle calls reach the feed (synchronous sends), so WHICH events a segment contains is "
    "determined by the script; the ORDER in which one segment's account events reach the engine is the scheduler's: they are compared as a sorted "
    "multiset - that the resulting engine does not depend on that order is a theorem (account_order_irrelevant + reachable_state_ok), under the "
    "hypothesis that fills carry positive quantities (the generator only requests positive quantities)",
    "within one segment the engine sees: the segment's handle events (call order), then the market events pushed, then account events; the model's "
    "scheduler produces the same grouping (handle sends are synchronous, forwarders need at least one task switch; market items need one hop, "
    "execution responses six)",
    "quiescence detection needs a count of the account events entering the system's account channel: the SystemBuild's public account_channel is "
    "tapped by a counting relay task (one extra FIFO hop in front of the system's own account forwarder)",
    "the engine's clock is a recording EngineClock (Engine::process hands every event to the clock first): this is how the harness sees what reached "
    "Engine::process; its time() is a strictly increasing counter (no wall clock)",
    "EngineFeedMode::Iterator runs the engine on a real blocking thread (spawn_blocking) that spins on try_recv: WHEN that thread runs relative to "
    "the runtime thread is not controlled; the harness synchronises with it only through the processed-event count",
    "a request for an exchange without execution link is always directly followed by `settle` (otherwise whether the next handle call panics is a thread race in Iterator mode)",
    "requests address the exchange their instrument lives on, or the exchange without execution link (a request routed to the mock exchange for an "
    "instrument it does not list makes the ExecutionManager task panic; not exercised); strategy reactions are only requested for instruments of the mocked exchange",
    "strategy decisions depend on recorded market trades only; DefaultRiskManager (approves everything); mock exchange with zero fees",
    "FeedEnded is not reachable while the System value lives (handle and forwarders hold feed senders); it is modelled only in the four runner functions",
    "position arithmetic beyond (side, net quantity) is C02's; balances inside the engine state are not compared (C09's)",
]
SOURCE_FILES = ["barter/src/system/mod.rs", "barter/src/system/builder.rs", "barter/src/system/config.rs", "barter/src/shutdown.rs",
                "barter/src/engine/run.rs", "barter/src/engine/mod.rs", "barter/src/engine/audit/mod.rs",
                "barter/src/execution/builder.rs", "barter-integration/src/channel.rs"]


def signature(ops, k, key, impl_line, spec_line):
    op = ops[k].split() if k < len(ops) else ["?"]
    kind = op[0] + (":" + op[1] if op[0] == "call" and len(op) > 1 else "")
    return f"clause={key}/op={kind}"


CLAIM = False
TECHNIQUE = ("Lean 4: the running system as a scheduler-driven transition system (handle calls, two forwarders, engine runner, one FIFO feed) over an "
             "ABSTRACT engine and execution side; invariants by induction over arbitrary action lists; the four runner functions of engine/run.rs "
             "modelled one by one and proved equal; link of the audit stream to the C10 replica theorem; correspondence with the real System under a paused tokio clock")
LEVEL_TEXT = ("Proof (sub-check of C20). Lean theorems (lean/BarterModel/Props/C20S.lean) over a model of the running System as a scheduler-driven transition "
              "system (handle calls, market forwarder, account forwarder, engine runner, one FIFO feed; engine and execution side abstract), for EVERY action list: "
              "builder_defaults / builder_setters / builder_last_call_wins / init_audit; the four runners of engine/run.rs modelled one by one: feed_modes_agree "
              "(Iterator and Stream runner return the same output on every feed), audit_mode_only_adds_ticks, runner_closed_form, stopped_state_is_runner_output "
              "(a stopped system is in exactly the state the selected runner function returns on the channel content); commands_once_in_order, applied_in_send_order, "
              "earlier_calls_applied_before, command_sees_trading_state (every handle event reaches Engine::process at most once, in call order; a trading_state() call made "
              "before a command is applied before it); engine_is_fold, result_is_fold, result_on_shutdown, nothing_after_stop, refines_spec (shutdown()/abort() return the "
              "built engine fed exactly the processed history: all handle events sent, in order, Shutdown last; nothing behind it is ever processed); "
              "drain_only_engine / no_forward_handle_only / final_segment_no_stream_events (between the user's last await and the return of shutdown()/abort() the engine "
              "processes handle events only - the spec states `m` and `a` EMPTY in the final block, all three projections empty after a fatal stop, and `seq_off` = "
              "sequence number minus processed events = 1 with the audit snapshot, else 0); abort_eq_shutdown "
              "(abort differs from shutdown in nothing the engine or the feed can see); audit_enabled_stream / audit_disabled_nothing / take_audit_once; "
              "audit_replica_reproduces_engine (snapshot + ticks through the C10 replica reproduce the engine, the C10 hypotheses discharged for this system); "
              "call_after_stop_panics / close_after_stop_panics / join_after_stop; streams_in_order, quiescent_everything_processed, requests_reach_exchange_in_order; "
              "trading_is_last_update; account_order_irrelevant + reachable_state_ok (the account events of one segment commute on the whole engine state). "
              "The model is tied to the code by driving the real System (SystemBuilder::build + init, mock exchange, both feed modes, both audit modes) under a paused tokio clock on every run.")
LEVEL_NOTE = ("Trusted: Lean kernel; axioms propext/Classical.choice/Quot.sound only; the hand-written model; harness (recording clock, counting relay on the account channel, "
              "synchronous replay of the recorded feed through a fresh real Engine for `own`, real StateReplicaManager for `replica_eq`), driver, orchestrator. Not exhibited by the model: "
              "when the blocking engine thread of the Iterator feed mode runs (its try_recv spin), OS timing, wall-clock time, tokio's task order inside one await of the harness.")
