N = {"quick": 250, "thorough": 2500}
EXHAUSTIVE = {"quick": False, "thorough": True}
RULE = ("each case = one real System built by the real SystemBuilder (build + init) on a current-thread tokio runtime with a paused clock: "
        "feed mode iter / stream / not set, audit on / off / not set, initial trading state on / off / not set, 1-3 spot instruments on a mocked "
        "exchange (initial balances chosen so that part of the orders is rejected) and in 35 % of the cases one more instrument on a second exchange "
        "WITHOUT execution configuration; a never-ending market stream owned by the harness; then 1-5 (thorough 1-8) segments of 0-3 ops out of "
        "{mkt (1-3 trades, half of them asking the strategy for an order), mktre, call open (1-2 requests, client order ids from a pool of 4), "
        "call cancel, call close <filter>, call cancel_orders <filter>, call trading on|off, take_audit}, 80 % of the segments closed by `settle` "
        "(await quiescence by tokio yields only, virtual time never moves); in 16 % of the cases a request for the exchange without execution link "
        "(the engine stops on the unrecoverable error) directly followed by `settle`, after which further calls, shutdown/abort (they panic) or "
        "`join` follow; the case ends with shutdown (55 %) or abort, 10 % add a call after the handle was consumed. Thorough additionally enumerates "
        "every op sequence of length <= 3 over 7 symbols for {iter,stream} x {audit on,off} (1 600 cases). A case is distinct by the SHA-1 of its op "
        "lines and non-trivial when the implementation's observation blocks differ")
ASSUMPTIONS = [
    "current-thread tokio runtime with a paused clock; mock exchange latency 0 and zero fees: virtual time never moves during a case (timeouts, latencies and reconnection back-off are not exercised)",
    "the harness awaits only in `settle` (until everything sent so far has been processed and every reaction has come back) and in shutdown/abort/join; "
    "between two awaits only handle calls reach the feed (they are synchronous sends), so which events a segment contains is determined by the script; "
    "the ORDER in which one segment's account events reach the engine is the scheduler's: the account events of a segment are compared as a sorted "
    "multiset and the generator avoids nothing - the compared engine state (orders, position side/quantity, price, trading state) does not depend on that order",
    "quiescence detection needs a count of the account events entering the system's account channel: the SystemBuild's public account_channel is "
    "tapped by a counting relay task (one extra FIFO hop in front of the system's own account forwarder)",
    "the engine's clock is a recording EngineClock (Engine::process hands every event to the clock first): this is how the harness sees what reached "
    "Engine::process; its time() is a strictly increasing counter (no wall clock)",
    "EngineFeedMode::Iterator runs the engine on a real blocking thread (spawn_blocking) that spins on try_recv: WHEN that thread runs relative to "
    "the runtime thread is not controlled; the harness synchronises with it only through the processed-event count",
    "a request for an exchange without execution link is always directly followed by `settle` (otherwise whether the next handle call panics is a thread race in Iterator mode)",
    "requests address the exchange their instrument lives on, or the exchange without execution link (a request routed to the mock exchange for an instrument it does not list makes the ExecutionManager task panic; not exercised)",
    "strategy decisions depend on recorded market trades only; DefaultRiskManager (approves everything)",
    "FeedEnded is not reachable while the System value lives (handle and forwarders hold feed senders); it is modelled only in the four runner functions",
]
SOURCE_FILES = ["barter/src/system/mod.rs", "barter/src/system/builder.rs", "barter/src/system/config.rs", "barter/src/shutdown.rs",
                "barter/src/engine/run.rs", "barter/src/engine/mod.rs", "barter/src/engine/audit/mod.rs",
                "barter/src/execution/builder.rs", "barter-integration/src/channel.rs"]


def signature(ops, k, key, impl_line, spec_line):
    op = ops[k].split() if k < len(ops) else ["?"]
    kind = op[0] + (":" + op[1] if op[0] == "call" and len(op) > 1 else "")
    return f"clause={key}/op={kind}"


CLAIM = False
TECHNIQUE = ("Lean 4: the running system as a scheduler-driven transition system (handle calls, two forwarders, engine runner, one FIFO feed) over an "
             "ABSTRACT engine and execution side; invariants by induction over arbitrary action lists; the four runner functions of engine/run.rs "
             "modelled one by one and proved equal; link of the audit stream to the C10 replica theorem; correspondence with the real System under a paused tokio clock")
LEVEL_TEXT = ("Proof (sub-check of C20). See lean/BarterModel/Props/C20S.lean.")
LEVEL_NOTE = ("Trusted: Lean kernel; axioms propext/Classical.choice/Quot.sound only; the hand-written model; harness (recording clock, counting relay on the account channel), driver, orchestrator.")
