N = {"quick": 400, "thorough": 4000}
EXHAUSTIVE = {"quick": False, "thorough": True}
RULE = ("each case = one real System built by the real SystemBuilder (build + init) on a current-thread tokio runtime with a paused clock: "
        "feed mode iter / stream / not set, audit on / off / not set, initial trading state on / off / not set, 1-3 spot instruments on a mocked "
        "exchange (latency 0 / 50 / 200 ms of virtual time; initial balances chosen so that part of the orders is rejected) and in 35 % of the cases "
        "one more instrument on a second exchange WITHOUT execution configuration; a never-ending market stream owned by the harness; then 1-5 "
        "(thorough 1-8) segments of 0-3 ops out of {mkt (1-3 trades, half of them asking the strategy for an order), mktre, call open (1-2 requests, "
        "client order ids from a pool of 4), call cancel, call close <filter>, call cancel_orders <filter>, call trading on|off, take_audit}, half of "
        "the segments closed by `settle` (await quiescence by tokio yields only), 30 % by `sleep 10|50|100|250` (tokio::time::advance, then settle), "
        "20 % not at all; in 16 % of the cases a request for the exchange without execution link (the engine stops on the unrecoverable error) directly "
        "followed by `settle`, after which further calls, shutdown/abort (they panic) or `join` follow; in 12 % of the cases with a second exchange the LAST request of the case "
        "(after `sleep 250`, directly followed by `settle`) is an open / cancel request sent to the mocked exchange for the instrument of the OTHER exchange: the ExecutionManager "
        "task panics, shutdown() then returns the JoinError (`res joinerr 1`), abort() the engine; the case ends with shutdown (55 %) or abort, "
        "10 % add a call after the handle was consumed. Ops outside the input guard PosOps (an open request or a market item with a price or quantity <= 0) are answered `bad-op` by "
        "harness and drivers alike (corpus/C20S/review_b.ops). Thorough additionally enumerates every op sequence of length <= 3 over 8 symbols (market trade "
        "with reaction, trading on, trading off, open, close, cancel_orders, settle, sleep 50) for {iter,stream} x {audit on,off} at latency 50 ms "
        "(2 340 cases). An input-domain family (cases d<n>, one per 8 random cases, own PRNG stream; hand cases in corpus/C20S/dom_multi_request.ops) draws what the random cases never do: quote balances 0 / 100 / 2e12 and base balances 0 / 1 "
        "(exact fits), latencies 1 / 500 ms, prices 0.5 / 99.99 / 1e12, quantities 3 / 1e-8, up to THREE open and TWO cancel requests in one call. "
        "A CONFIGURATION-SHAPE family (cases cfg<n>, one per 8 random cases, own PRNG stream; hand cases in corpus/C20S/cfg_shapes.ops) assembles the system as the random cases never do: "
        "in 2 of 3 cases the exchange without execution link is ExchangeId::Other, which sorts BEFORE the mocked exchange (`x2 = 2`: MultiExchangeTxMap = [None, Some], the mocked exchange is "
        "ExchangeIndex(1), its instruments InstrumentIndex(1..k), its assets behind the other exchange's; all other cases have the mocked exchange at index 0), and in 2 of 3 cases the builder "
        "calls are made in ANY order with setters repeated (`sysb <calls> ...`: 0-5 calls drawn from engine_feed_mode Iterator / Stream, audit_mode on / off, trading_state on / off; the `sys` line "
        "always calls feed, audit, trading in that order, each at most once); the spec driver states the documented outcome (last call of a setter counts, defaults otherwise). A case is distinct by the SHA-1 of its op lines and non-trivial when the implementation's observation blocks differ")
ASSUMPTIONS = [
    "current-thread tokio runtime with a paused clock; the harness never relies on auto-advance: virtual time moves only in `sleep` ops "
    "(mock exchange latency 0 / 50 / 200 ms; the 1 s request timeout of the execution manager and the reconnection back-off are never reached)",
    "the harness awaits only in `settle` / `sleep` (until everything sent so far has been processed and every reaction that is due has come back) "
    "and in shutdown / abort / join; between two awaits only handle calls reach the feed (synchronous sends), so WHICH events a segment contains is "
    "determined by the script; the ORDER in which one segment's account events reach the engine is the scheduler's: they are compared as a sorted "
    "multiset - that the resulting engine does not depend on that order is a theorem (account_order_irrelevant + reachable_state_ok), under the "
    "hypothesis that fills carry positive quantities (the generator only requests positive quantities)",
    "within one segment the engine sees: the segment's handle events (call order), then the market events pushed, then account events; the model's "
    "scheduler produces the same grouping (handle sends are synchronous, forwarders need at least one task switch; market items need one hop, "
    "execution responses six)",
    "quiescence detection needs a count of the account events entering the system's account channel: the SystemBuild's public account_channel is "
    "tapped by a counting relay task (one extra FIFO hop in front of the system's own account forwarder)",
    "the engine's clock is a recording EngineClock (Engine::process hands every event to the clock first): this is how the harness sees what reached "
    "Engine::process; its time() is a strictly increasing counter (no wall clock)",
    "EngineFeedMode::Iterator runs the engine on a real blocking thread (spawn_blocking) that spins on try_recv: WHEN that thread runs relative to "
    "the runtime thread is not controlled; the harness synchronises with it only through the processed-event count",
    "a request for an exchange without execution link is always directly followed by `settle` (otherwise whether the next handle call panics is a thread race in Iterator mode)",
    "requests address the exchange their instrument lives on, or the exchange without execution link, or - only as the LAST request of a case, after everything requested before has "
    "been answered (`sleep 250`), directly followed by `settle` - the mocked exchange for the instrument of the other exchange: that makes the ExecutionManager task panic "
    "(manager.rs:244-268; modelled: CExch.dead, the dead side answers nothing, shutdown() yields the JoinError, abort() does not - exec_task_dies_iff, dead_execution_side_is_silent, "
    "shutdown_fails_where_abort_succeeds). NOT modelled: what the ENGINE does with a later request for the exchange whose task has died (observed: its link is closed, the request ends in "
    "an unrecoverable ExecutionChannelTerminated and the engine stops) and what a panicking manager task does to requests still in flight (tokio::select! order); neither is generated. "
    "Strategy reactions are only requested for instruments of the mocked exchange",
    "input guard PosOps: every open request sent through the handle and every market item carries a positive price, every requested quantity (open requests, strategy reactions) is positive; "
    "inputs outside it are rejected as `bad-op` by harness and drivers. Under the guard every fill the engine ever processes is positive for EVERY schedule (posOps_events_ok, which also covers "
    "the strategy's and close_positions' own requests), which is the hypothesis of account_order_irrelevant / reachable_state_ok. Outside it the real engine PANICS (0/0 in "
    "approximate_remaining_exit_fees, position.rs:517-523, at the next fill or price update of a position opened by a zero-quantity fill; 0/(0*q) in calculate_pnl_return, position.rs:549-555, "
    "when a position entered at price 0 exits) where the model continues (zero_quantity_fill_witness; re-run audit/sub/scratch_B/C20S_z1.ops, C20S_z2.ops); the panic condition itself is stated "
    "on the full position record in sub-check C20E (tick_panics / posOps_no_panic)",
    "Engine::shutdown() (the engine runner sends ExecutionRequest::Shutdown to every execution manager when it stops - what lets SystemAuxillaryHandles::shutdown() return) is not modelled: "
    "the model's outcome of shutdown() is available as soon as the engine task has returned",
    "number range: the models use exact rationals; Decimal overflow (e.g. 1e15 x 1e15 against a 7e28 balance kills the mock exchange task: `res joinerr 1` where the model closes normally), "
    "k = 0 instruments and market items / requests naming an instrument index beyond the configured ones (the harness's label lookup panics) are outside the generator and outside the model",
    "strategy decisions depend on recorded market trades only; DefaultRiskManager (approves everything); mock exchange with zero fees",
    "set-up shapes FIXED by the harness (configuration-shape audit): exactly ONE exchange with an execution link (ExecutionConfig::Mock) and at most one without, with one instrument; spot instruments only; "
    "SystemBuilder::balances() never called (engine balances are not observed here); SystemBuild::init() on the current runtime (init_with_runtime with another runtime, a multi-thread runtime: not "
    "driven - the paused current-thread clock is what makes the run a function of the script); System::shutdown_after_backtest is C20's; the recording clock (neither LiveClock nor HistoricalClock); "
    "one strategy (reacts to tagged trades) and DefaultRiskManager",
    "FeedEnded is not reachable while the System value lives (handle and forwarders hold feed senders); it is modelled only in the four runner functions",
    "position arithmetic beyond (side, net quantity) is C02's; balances inside the engine state are not compared (C09's)",
]
SOURCE_FILES = ["barter/src/system/mod.rs", "barter/src/system/builder.rs", "barter/src/system/config.rs", "barter/src/shutdown.rs",
                "barter/src/engine/run.rs", "barter/src/engine/mod.rs", "barter/src/engine/audit/mod.rs",
                "barter/src/execution/builder.rs", "barter-integration/src/channel.rs"]


def signature(ops, k, key, impl_line, spec_line):
    op = ops[k].split() if k < len(ops) else ["?"]
    kind = op[0] + (":" + op[1] if op[0] == "call" and len(op) > 1 else "")
    return f"clause={key}/op={kind}"


CLAIM = False
TECHNIQUE = ("Lean 4: the running system as a scheduler-driven transition system (handle calls, two forwarders, engine runner, one FIFO feed) over an "
             "ABSTRACT engine and execution side; invariants by induction over arbitrary action lists; the four runner functions of engine/run.rs "
             "modelled one by one and proved equal; link of the audit stream to the C10 replica theorem; correspondence with the real System under a paused tokio clock")
LEVEL_TEXT = ("Proof (sub-check of C20). Lean theorems (lean/BarterModel/Props/C20S.lean) over a model of the running System as a scheduler-driven transition "
              "system (handle calls, market forwarder, account forwarder, engine runner, one FIFO feed; engine and execution side abstract), for EVERY action list: "
              "the four runners of engine/run.rs modelled one by one: audit_mode_only_adds_ticks, runner_closed_form, stopped_state_is_runner_output "
              "(a stopped system is in exactly the state the selected runner function returns on the channel content); commands_once_in_order, applied_in_send_order, "
              "earlier_calls_applied_before + earlier_calls_applied_before_pos (positional), command_sees_trading_state (every handle event reaches Engine::process at most once, in call order; a trading_state() call made "
              "before a command is applied before it); engine_is_fold, result_is_fold, result_on_shutdown, nothing_after_stop, refines_spec (the engine task of shutdown()/abort() returns the "
              "built engine fed exactly the processed history: all handle events sent, in order, Shutdown last; nothing behind it is ever processed); "
              "after_close_any_schedule / final_segment_any_schedule (from a feed holding only handle events, the close call followed by ANY schedule - forwarders included - lets the engine "
              "process handle events only: whatever the forwarders enqueue stands behind the Shutdown; the spec states `m` and `a` EMPTY in the final block, all three projections empty after a fatal stop, and `seq_off` = "
              "sequence number minus processed events = 1 with the audit snapshot, else 0; drain_only_engine / no_forward_handle_only / final_segment_no_stream_events are the weaker forms kept); "
              "abort vs shutdown for the CALLER: outcome_abort_eq_shutdown (same value WHILE NO EXECUTION TASK HAS DIED), shutdown_fails_where_abort_succeeds + exec_death_witness (after the death of an "
              "execution task shutdown() returns its JoinError, abort() the engine), exec_task_dies_iff (the mocked ExecutionManager dies exactly on a request for an instrument its exchange does not list), "
              "dead_execution_side_is_silent; audit_enabled_stream / audit_disabled_nothing / take_audit_once; "
              "audit_replica_reproduces_engine (snapshot + the ticks RECOMPUTED from the processed history through the C10 replica reproduce the engine, the C10 hypotheses discharged for this system; sequence numbers and terminal flags of the recomputed ticks are those of the ticks sent); "
              "close_after_stop_panics / join_after_stop; streams_in_order, quiescent_everything_processed; "
              "trading_is_last_update; account_order_irrelevant + reachable_state_ok (the account events of one segment commute on the whole engine state) with the hypothesis derived from the inputs: "
              "posOps_events_ok / reachable_state_ok_of_posOps (guard PosOps: positive prices and quantities in every request and market item => every request the engine sends, its own included, and every fill it processes is positive), "
              "zero_quantity_fill_witness (what the guard excludes). "
              "Definitional / bookkeeping, true by construction of the model and NOT results: builder_defaults / builder_setters / builder_last_call_wins / init_audit (rfl), feed_modes_agree (the model's "
              "Iterator and Stream runners are the same recursion written twice - what ties the two REAL runners is the correspondence run, which drives feed modes iter, stream and the unset default), "
              "requests_reach_exchange_in_order (two ghost fields written by the same step), call_after_stop_panics (simp on send), abort_eq_shutdown (stepClose never reads which of the two was called; it is about the engine task's join value, not the caller's). "
              "The model is tied to the code by driving the real System (SystemBuilder::build + init, mock exchange, both feed modes, both audit modes) under a paused tokio clock on every run.")
LEVEL_NOTE = ("Trusted: Lean kernel; axioms propext/Classical.choice/Quot.sound only; the hand-written model; harness (recording clock, counting relay on the account channel, "
              "synchronous replay of the recorded feed through a fresh real Engine for `own`, real StateReplicaManager for `replica_eq`), driver, orchestrator. Not exhibited by the model: "
              "when the blocking engine thread of the Iterator feed mode runs (its try_recv spin), OS timing, wall-clock time, tokio's task order inside one await of the harness. "
              "Spec driver = function of the op lines only (independent keys: built, audit_present, h, m per settle, audit some|none, the final block's h / m / a, shutdown_audit, seq_off, disabled_calls, trading, own 1, "
              "and `res joinerr 1` for shutdown() after a request that kills the mocked ExecutionManager); impl-vs-model only: `a` per settle, alive, ord / pos / price, seq, processed, disconnects, replica_seq, panic lines after a fatal stop.")
