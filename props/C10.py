N = {"quick": 200, "thorough": 5000}
RULE = ("random engines (1-2 exchanges, 1-3 instruments, links mostly healthy) and histories of 1-22/40 events (commands incl. CancelOrders/ClosePositions, order snapshots, cancel responses, "
        "fills, prices, trading toggles, shutdown) with scripted strategy output, stepped with the real process_with_audit; every AuditTick is fed to a real StateReplicaManager and engine and "
        "replica are compared after every record (orders, positions, prices, trading state printed; all remaining EngineState fields - connectivity, balances, market data, tear sheets - compared "
        "with PartialEq in the harness). 8% of steps re-deliver the last record (must be skipped) or deliver a record two ahead (must be rejected). Half the cases end with `runall`: the whole "
        "history through sync_run_with_audit / async_run_with_audit over a real channel into a fresh StateReplicaManager::run. 1 case in 8 deliberately re-uses client order ids of confirmed "
        "orders (outside the FreshCids hypothesis: model vs code only, spec silent on orders). Distinct by SHA-1 of op lines; non-trivial when the observations change at least once")
ASSUMPTIONS = [
    "PARTIAL: connectivity, balances, market-data registers and per-instrument tear sheets are updated by the identical update_from_account/market calls on engine and replica; they are modelled in C14/C09/C16/C18 and here compared directly on the real engine vs the real replica (rep_rest_eq), not re-proved",
    "PARTIAL (runtime): the async runner's audit channel is FIFO (assumption); the model's run loop is the common skeleton of sync_run_with_audit and async_run_with_audit",
    "replication of ORDERS holds under: order reports carry exchange states only (open / cancelled / fully filled / failed / expired / cancel responses, no in-flight echo, no hand-built cancel marker) and FreshCids (an open request reported sent does not re-use the client order id of an order the exchange has confirmed open); both are necessary (examples in Props/C10.lean)",
    "static fields of an order (quantity, price, exchange) are not part of the replication statement: the engine creates the entry from the request, the replica from the exchange's report",
    "the replica starts from the engine's snapshot; a snapshot that itself contains in-flight markers is outside synced_snapshot's hypothesis",
]
SOURCE_FILES = ["barter/src/engine/audit/mod.rs", "barter/src/engine/audit/state_replica.rs", "barter/src/engine/run.rs", "barter/src/engine/mod.rs"]
CLAIM = True
TECHNIQUE = "Lean 4: simulation relation between engine and replica (replica = engine with in-flight markers stripped) preserved by every event, by case analysis on the order lifecycle + induction over histories; sequence-number and terminal-record lemmas by induction over the feed; correspondence with the real process_with_audit / run loops / StateReplicaManager"
LEVEL_TEXT = ("Proof (logic) + correspondence (runtime). lean/BarterModel/Props/C10.lean proves for every feed and every strategy/risk behaviour: one record per processed event carrying that event, "
              "consecutive sequence numbers after the snapshot (one_record_per_event, consecutive, records_carry_events), the final record is the shutdown / feed-ended / fatal one and none before it is terminal "
              "(terminal_last); the simulation relation Synced (trading state, positions, prices equal; orders equal once in-flight markers are set aside) is preserved by every event kind incl. the four commands "
              "and order-issuing strategies (replica_simulation_step) and therefore after every record of any history (replica_simulation, synced_snapshot); the replica applies the engine's own records without "
              "skipping or rejecting (replica_accepts_engine_record), skips a repeated record (duplicate_skipped) and rejects a gap without advancing (gap_rejected).")
LEVEL_NOTE = ("Trusted: Lean kernel; axioms propext/Classical.choice/Quot.sound; hand-written model tied to the code by sampled correspondence against the real engine, runners, channel and StateReplicaManager "
              "(200 quick / 5000 thorough). Hypotheses for order replication: exchange states only, FreshCids. Components not in the model (connectivity, balances, market data, statistics) are compared directly "
              "between real engine and real replica.")
SUBCHECKS = ["C10C"]
