N = {"quick": 200, "thorough": 5000}
RULE = ("random engines (1-2 exchanges, 1-3 instruments, links mostly healthy) and histories of 1-22/40 events (commands incl. CancelOrders/ClosePositions, order snapshots, cancel responses, "
        "fills, prices, trading toggles, shutdown) with scripted strategy output, stepped with the real process_with_audit; every AuditTick is fed to a real StateReplicaManager and engine and "
        "replica are compared after every record (orders, positions, prices, trading state printed; all remaining EngineState fields - connectivity, balances, market data, tear sheets - compared "
        "with PartialEq in the harness). Every record's EVENT is printed as a digest in label space (`rec_ev`: kind + identifying fields - requests of a command, filter, trading state, order snapshot / cancel "
        "response / trade / price payload; balance snapshots and disconnect notices collapse to `other`) together with the kinds of the outputs it carries (`rec_out`, model vs code only); the spec "
        "states `rec_ev` from the INPUT event of the op, not from the model's tick. cancel_orders / close_positions filters vary (none, one or two exchanges, one or two instruments). 8% of steps re-deliver the last record (must be skipped) or deliver a record two ahead (must be rejected). Half the cases end with `runall`: the whole "
        "history through sync_run_with_audit / async_run_with_audit over a real channel into a fresh StateReplicaManager::run; one `run_ev` digest per record received on the channel (spec: the digests "
        "of the history's input events, as many as there are records, then `feed-ended`), and the order clause on the two real final states (`run_rep_sync`, spec 1 under the hypotheses). 1 case in 8 deliberately re-uses client order ids of confirmed "
        "orders (outside the FreshCids hypothesis: model vs code only, spec silent on orders). "
        "INPUT-DOMAIN FAMILIES (appended after the N random cases, separately seeded, so the random cases are unchanged): (a) 10 directed cases = each way a run ends (feed ended / shutdown / fatal error on a closed "
        "link) with the terminal event first / in the middle / last, and the EMPTY run (snapshot, then the feed ends at once) on three configurations, each run through both runners once clean and once through every "
        "TRANSPORT FAULT between channel and replica (`runall <runner> <drop|dup|late|swap>:<first|mid|last|index>`: a record removed, repeated immediately, repeated just before the final record, exchanged with its "
        "successor); (b) N/2 `wide` cases: 1-3 exchanges with the instruments in any order (first instrument on a non-first exchange), histories of 0-22/40 events, requests on both sides with varied price / quantity "
        "(fractions, 1e-8, 1e8), for another or an unknown exchange, with an order id, REFUSED by the risk manager (cid >= 5000), commands with 0-3 requests, cancels / reports for orders the engine never heard of, order "
        "snapshots with varied quantity / price / filled quantity and the in-flight echo `F`, `und:` and non-matching filters, fractional / tiny / huge fills and prices, the replica ops `rep_old k` (the record of k events "
        "ago re-delivered unchanged: skipped) and `rep_at s` (the last record stamped with sequence s = 0, an old number, far ahead up to u64::MAX), one or two such ops in a row, and 0-2 runs, 60 % of them through a "
        "transport fault; (c) 2 / 12 `long` cases: 150-400 events without a terminal one, then shutdown, one run through a fault and one clean run. The spec demands `run_rep_sync 1` for clean runs and for faults that only "
        "repeat records (dup, late); after a lost record only what the model says the replica did with the stream (`run_rep ok|err`) is demanded. "
        "CONFIGURATION-SHAPE FAMILY (appended last, separately seeded, N/4 `cfg` cases; every case above is unchanged): the replica is assembled from the snapshot of a RUNNING engine instead of a fresh one - "
        "(a) `resnap` = `audit_snapshot` of the case's engine after 0..len events (orders confirmed and in flight, positions, prices, a balance, trading on or off, sequence counter > 0) and a fresh `StateReplicaManager::new` on it, "
        "fed by the following records, 1-3 times per case (also twice in a row, first, last), followed by `rep_dup` / `rep_gap` / `rep_old k` (records from BEFORE the snapshot: skipped) / `rep_at s`; observed: the snapshot's number, "
        "the replica's start (`rep_start`) and state; (b) `runtwo <runner> k [fault]` = a SECOND RUN ON THE SAME ENGINE: events 0..k through the runner (own snapshot, channel, replica: `run1_*`), then a second snapshot (`snap2_seq`), "
        "a new channel and the rest of the same feed through the runner into a fresh replica on the second snapshot, clean or through a transport fault (k = 0 / k >= length: one of the runs is the empty run; a shutdown / fatal event inside "
        "the first part: the second run starts on a stopped engine). "
        "Distinct by SHA-1 of op lines; non-trivial when the observations change at least once")
ASSUMPTIONS = [
    "PARTIAL: connectivity, balances, market-data registers and per-instrument tear sheets are updated by the identical update_from_account/market calls on engine and replica; they are modelled in C14/C09/C16/C18 and here compared directly on the real engine vs the real replica (rep_rest_eq), not re-proved",
    "PARTIAL (runtime): the async runner's audit channel is FIFO (assumption); the model's run loop is the common skeleton of sync_run_with_audit and async_run_with_audit",
    "replication of ORDERS holds under: order reports carry exchange states only (open / cancelled / fully filled / failed / expired / cancel responses, no in-flight echo, no hand-built cancel marker) and FreshCids (an open request reported sent does not re-use the client order id of an order the exchange has confirmed open); both are necessary (examples in Props/C10.lean)",
    "FreshCids, explicitly (review C10-2): it is a HYPOTHESIS of replica_simulation_step / replica_simulation / synced_snapshot, not something the engine enforces. Outside it replication of orders FAILS: re-sending an open request with the client order id of an exchange-confirmed open order makes the engine overwrite its entry with an in-flight one (it forgets the confirmed order) while the replica, which never sees in-flight markers, keeps the confirmed open order - Props/C10.lean's own last `example` before the review section (demoEng: request cid 7, exchange confirms it open, the strategy issues cid 7 again: engine = inFlight, replica = opn rep1). 1 case in 8 of the correspondence leaves the hypothesis on purpose (model vs code only; the oracle is silent on orders there)",
    "orders are compared by TRACKED STATE, not by static fields (review C10-3): `Synced` equates, per (instrument, client order id), the lifecycle state once in-flight markers are set aside (open with the exchange's report / cancel pending / absent); the static fields of an order (quantity, price, kind, exchange) are not part of the replication statement - the engine creates its entry from the strategy's request, the replica from the exchange's report, and no theorem states that the two carry the same quantity / price",
    "observation of the record's event (oracle review C10-H1): `rec_ev` / `run_ev` are digests - kind, requests (exchange, instrument, client order id, side, price, quantity / order id), filter (`und:` filters only by the number of underlyings), trading state, order snapshot (instrument, cid, quantity, price, state), cancel response (ok|err), trade (instrument, side, quantity), price; NOT observed: times, trade / order ids of fills, fees, the payload of balance snapshots and disconnect notices (`other`), kind / time-in-force of requests. `rec_out` (kinds of the Commanded / AlgoOrders outputs in the record) is model-vs-code only; their content is C03's business",
    "`rep_sync` / `run_rep_sync` (oracle review C10-M1) are computed by the harness on the two REAL states (engine vs replica, tracked order states with in-flight markers set aside); the spec demands 1 while EventOk / FreshCids held for the whole history of the case, and is silent afterwards",
    "INPUT DOMAIN (audit dom2): the engine protocol (shared with C03/C19) fixes what an event can carry: fills always have fee 0, quantity > 0 and strictly increasing times (one tick per event), and are generated only on a flat instrument "
    "(`fill`) or against the open position (`reduce` = half, `flat` = all): a fill that INCREASES or FLIPS a position cannot be expressed because the shared model's `position` update sets instead of netting; market items are public "
    "trades only (no L1 / book / candle items), account items never a full account snapshot, balance snapshots always for the exchange's first asset. These classes are legal for the API and inside the quantifier; for them the "
    "replica runs the identical update_from_account / update_from_market code as the engine, so the per-record comparison would be real-vs-real only - not generated, reported as open",
    "`rep_at s` with s = replica sequence + 1 would be a FORGED valid successor (not a missing or repeated record): harness and drivers reject it as `bad-op`; the generator never emits it. After a transport fault that loses a record "
    "(`drop`, `swap`) the replica has applied a prefix of the run: `run_rep_rest_eq` is not printed and `run_rep_sync` is model-vs-code only",
    "the replica starts from the engine's snapshot; a snapshot that itself contains in-flight markers is outside synced_snapshot's hypothesis",
    "CONFIGURATION SHAPES (audit cfg1): `resnap` / `runtwo` build the replica from the snapshot of a pre-populated engine whose sequence counter is > 0 (a second snapshot / a second run on the same engine - legal for the API: "
    "`Auditor::audit_snapshot` and the runners take any engine). The spec demands the order clause after a `resnap` / for the second run of `runtwo` only when that snapshot holds no in-flight marker (otherwise model vs code only) and, "
    "for `runtwo`, when EventOk / FreshCids held for the whole history; the second run is fed the rest of the SAME feed (what the first run did not consume), so the two runs together process the history in order. "
    "Fixed and NOT varied by the harness (open): the clock is `HistoricalClock` (times are not observed), the strategy's `OnDisconnect` / `OnTradingDisabled` outputs are `()`, the runtime of the async runner is current-thread, "
    "one replica per audit stream (the channel is single-consumer), the replica reads a `Vec` of the records received on the real channel rather than the receiver itself (the receiver as `Iterator` is C10C's business), "
    "instruments are spot only (shared engine protocol)",
]
SOURCE_FILES = ["barter/src/engine/audit/mod.rs", "barter/src/engine/audit/state_replica.rs", "barter/src/engine/run.rs", "barter/src/engine/mod.rs",
                "barter/src/engine/audit/context.rs", "barter/src/lib.rs", "barter/src/engine/clock.rs"]
PREBUILD = [["python3", "tools/rust2lean_sm.py", "--require", "audit_seq"]]
CLAIM = True
TECHNIQUE = "Lean 4: simulation relation between engine and replica (replica = engine with in-flight markers stripped) preserved by every event, by case analysis on the order lifecycle + induction over histories; sequence-number and terminal-record lemmas by induction over the feed; correspondence with the real process_with_audit / run loops / StateReplicaManager"
LEVEL_TEXT = ("Proof (logic) + correspondence (runtime). lean/BarterModel/Props/C10.lean proves for every feed and every strategy/risk behaviour: one record per processed event carrying that event, "
              "consecutive sequence numbers after the snapshot (one_record_per_event, consecutive, records_carry_events), the final record is the shutdown / feed-ended / fatal one and none before it is terminal "
              "(terminal_last); the simulation relation Synced (trading state, positions, prices equal; orders equal once in-flight markers are set aside) is preserved by every event kind incl. the four commands "
              "and order-issuing strategies (replica_simulation_step) and therefore after every record of any history (replica_simulation, synced_snapshot); the replica applies the engine's own records without "
              "skipping or rejecting (replica_accepts_engine_record), skips a repeated record (duplicate_skipped) and rejects a gap without advancing (gap_rejected).")
LEVEL_NOTE = ("Trusted: Lean kernel; axioms propext/Classical.choice/Quot.sound; hand-written model tied to the code by sampled correspondence against the real engine, runners, channel and StateReplicaManager "
              "(200 quick / 5000 thorough). Hypotheses for order replication: exchange states only, FreshCids. Components not in the model (connectivity, balances, market data, statistics) are compared directly "
              "between real engine and real replica. "
              "Sequence::fetch_add, EngineMeta, Engine::{new, audit, audit_snapshot, reset_metadata}, process_with_audit (traits Processor / Auditor / EngineClock as records of their methods) and "
              "StateReplicaManager::{new, validate_and_update_context} are additionally regenerated from the source by tools/rust2lean_sm.py (Generated/Machines4.lean, group audit_seq) and proved, for all engines / "
              "clocks / events / replica states, to be the model's stamp-then-advance step, the model's processWithAudit (under the one hypothesis that the untranslated Engine::process is simulated by the model's "
              "process and does not write meta.sequence) and the model's Replica.step after run's duplicate test (audit_sequence_agrees_with_source); the translator, its prelude and the reading of traits as "
              "records are trusted for that tie. Not translated: Engine::process, the loops of run.rs and StateReplicaManager::run, update_from_event.")
SUBCHECKS = ["C10C"]


def signature(ops, k, key, impl_line, spec_line):
    """`rec_ev` / `run_ev` (the event a record carries): name the kind of the event the spec expects, e.g.
    `clause=rec_ev/cmd_open`; every other key keeps the default `clause=<key>`."""
    if key in ("rec_ev", "run_ev"):
        t = spec_line.split()
        kind = t[1] if len(t) > 1 and not spec_line.startswith("<") else "surplus"
        return f"clause={key}/{kind}"
    return None
