N = {"quick": 600, "thorough": 12000}
EXHAUSTIVE = {"quick": False, "thorough": True}
RULE = ("placeholder")
ASSUMPTIONS = []
SOURCE_FILES = ["barter-execution/src/client/mock/mod.rs", "barter-execution/src/exchange/mock/request.rs",
                "barter-execution/src/exchange/mock/mod.rs", "barter-execution/src/exchange/mock/account.rs",
                "barter-execution/src/client/mod.rs"]


def signature(ops, k, key, impl_line, spec_line):
    op = ops[k].split() if k < len(ops) else ["?"]
    cls = op[0]
    if op[0] == "call" and len(op) >= 3:
        cls = "call_" + op[2]
    elif op[0] == "exch" and len(op) >= 2:
        cls = "exch_" + op[1]
    key = key.split(".", 1)[1] if key.startswith("w") and "." in key else key
    return "clause=%s/op=%s" % (key, cls)


CLAIM = False
TECHNIQUE = "placeholder"
LEVEL_TEXT = "placeholder"
LEVEL_NOTE = "placeholder"
