N = {"quick": 600, "thorough": 12000}
EXHAUSTIVE = {"quick": False, "thorough": True}
RULE = ("every case drives the real MockExecution (one clone per worker task) against a real MockExchange::run task over the real tokio channels (unbounded mpsc "
        "for requests, a oneshot per response, broadcast for account events) on a current-thread tokio runtime with a paused clock; the harness never sleeps "
        "(virtual time moves only by `adv`), runs the runtime to quiescence after every operation, schedules / deschedules the exchange task through a gating "
        "wrapper around the real `run` future and aborts it for `exch stop`. Random cases: a configuration (latency in {0,1,2,7,100,101} ms, fee in "
        "{0,0.001,0.01,0.1,0.25} and occasionally -0.01, broadcast capacity in {1,2,3,4,5,8,16,256}, 1-4 assets, 0-3 instruments, 5 % ill-formed so that "
        "open_order panics and the exchange task dies), 0-3 initial InstrumentAccountSnapshots with 0-4 orders each (open 45 % / cancelled 30 % / in flight, "
        "filled, expired, failed, cancel in flight 25 %; 20 % filed under a foreign instrument; 15 % of the cases with colliding client order ids), 1-4 "
        "workers, then up to 30 (quick) / 70 (thorough) operations: call from an idle worker 38 % (open 55 % with known / unknown instrument, market / limit, "
        "prices and quantities incl. 0 and negative; snapshot, balances, open orders, trades since, cancel), virtual time 20 % (0, 1, latency, latency-1, "
        "latency/2, latency+1, 1000, random), client clock 10 % (mostly monotone, 15 % arbitrary), new account_stream subscriber 8 %, poll of a subscriber "
        "12 %, exchange task descheduled / scheduled 4 % each, a worker dropping the future of its pending call 3 %, exchange aborted 1 % plus in a quarter "
        "of the cases somewhere in the last 40 % of the history; 3 % of the calls address a busy or non-existent worker (both sides answer `bad-op`); 1 % of the "
        "cases call MockExchange::cancel_order on the struct (unimplemented!). Thorough additionally enumerates every sequence of length <= 4 over 13 "
        "operation symbols (two concurrent workers, accepted and rejected orders, snapshot, cancel, adv 1 / 2, exchange off / on / stop, abandon, sub, poll) "
        "on a configuration with one configured open and one configured cancelled order, latency 2, capacity 4 (30 941 cases). 10 committed corpus cases "
        "(corpus/C08C) pin the edge behaviours. Compared per operation: every completed call (worker, call number, elapsed virtual ms, response class, echo, "
        "order id / fill / exchange time or error kind with asset and amounts, balances with time stamps, instrument groups in the order returned with their "
        "orders, open orders, trades), the events handed to a polled subscriber and whether its stream ended, virtual time, and which worker waits on which "
        "call. A case is distinct by the SHA-1 of its op lines and non-trivial when the implementation's observation blocks differ at least once")
ASSUMPTIONS = [
    "the ledger part of the exchange is the C08 model, imported and reused unchanged; everything C08 assumes applies (exact rational arithmetic, asset / "
    "instrument names distinct, quantity means |q|)",
    "configuration well formed (C08: every initial balance has total = free, instrument assets have balances) for every theorem about reachable states and "
    "for the specification; an ill-formed configuration makes open_order panic: the model then treats the exchange task as gone (tied by correspondence "
    "only, the spec is silent)",
    "no two configured open orders and no two configured cancelled orders share a client order id (`Spec.distinctCids`) for the refinement theorems and the "
    "specification; with a collision the code keeps the last one per cid (modelled, theorems cid_collision_last_wins / cid_collision_loses_an_order, tied "
    "by correspondence, the spec is silent)",
    "a FnvHashMap<ClientOrderId, _> is modelled as the list of its values sorted by key; the harness sorts what it gets from the maps the same way (open "
    "orders by cid; inside one instrument group of a snapshot: open before cancelled, then cid) because the code's order there is hash-map iteration order "
    "under an unstable sort; instrument names are zero padded so that their string order is the order of the indices",
    "scheduling: operations are atomic and followed by the runtime running to quiescence (the harness yields 16 times; the longest wake-up chain needs 5); "
    "latency tasks with the same deadline wake in spawn order (tokio's timer wheel is FIFO per slot, and all tasks spawned for one exchange have the same "
    "latency, so deadlines are monotone in spawn order); the exchange task not being scheduled is modelled by a gate, its death by abort",
    "tokio's unbounded mpsc is FIFO, a oneshot resolves with the value sent or with an error when the sender is dropped, a broadcast channel of capacity n "
    "holds next_power_of_two(n) values and a receiver more than that behind gets Lagged; a Sender clone held by a sleeping notification task keeps the "
    "channel open; the client's own `event_rx` keeps one receiver alive so `send` never fails",
    "the client's clock function is an injected cell set by `clock <t>`; tracing output and serde / derive impls are not modelled",
]
SOURCE_FILES = ["barter-execution/src/client/mock/mod.rs", "barter-execution/src/exchange/mock/request.rs",
                "barter-execution/src/exchange/mock/mod.rs", "barter-execution/src/exchange/mock/account.rs",
                "barter-execution/src/client/mod.rs", "barter/src/execution/builder.rs"]


def signature(ops, k, key, impl_line, spec_line):
    """clause = observation key without the worker prefix; op = operation class"""
    op = ops[k].split() if k < len(ops) else ["?"]
    cls = op[0]
    if op[0] == "call" and len(op) >= 3:
        cls = "call_" + op[2]
    elif op[0] == "exch" and len(op) >= 2:
        cls = "exch_" + op[1]
    key = key.split(".", 1)[1] if key.startswith("w") and "." in key else key
    return "clause=%s/op=%s" % (key, cls)


CLAIM = False
TECHNIQUE = ("Lean 4: the C08 exchange model extended by the configured order maps (projection lemma: every C08 theorem transfers); the client / channel / task "
             "system as a transition system over operations with history variables; one invariant (FIFO of call ids, every history record = the exchange's response "
             "after the records before it, latency tasks = spawned minus the first `fired`, event log = notifications of the woken tasks, justified completions, "
             "subscriber segments) kept by every operation, a tracking invariant for promptness, and a simulation with a history-only specification machine "
             "(no exchange state, no timers, no channel buffer) proved operation by operation and over whole histories; correspondence of model and specification "
             "with the real MockExecution + MockExchange::run under a paused tokio clock")
LEVEL_TEXT = ("Proof (sub-check of C08). lean/BarterModel/Props/C08C.lean, 38 theorems, all for unbounded histories / arbitrary configurations, none `_partial`. EXCHANGE WITH "
              "CONFIGURED ORDERS: ledger_is_C08 (the ledger part is the C08 exchange step by step and over histories); orders_never_change (market orders never rest: "
              "cancelled orders untouched, open orders keep all but the time stamp, for every history); update_time_stamps / open_orders_carry_last_request_time "
              "(exchange time t + latency/2 on the clock, every balance and every open order, not on cancelled ones; the LAST request's time, also backwards); "
              "init_ignores_filing, init_keeps_configured_orders (with distinct cids exactly the configured open / cancelled orders, listed by cid; other states "
              "dropped), cid_collision_last_wins + cid_collision_loses_an_order (maps keyed by cid ALONE: an order on another instrument with the same cid is lost), "
              "fresh_id_collides_with_configured_id; snapshot_groups / instrument_listed_iff_has_order / snapshot_groups_eq_spec (instruments strictly ascending, each "
              "once, a group = exactly that instrument's orders stably, never empty; instruments without orders - configured or filed empty - are not listed; the "
              "grouping is unique); cancel_request_dropped; answers_refine_spec + configured_orders_reported_forever (after ANY history every response conforms to "
              "the history-only answer - ledger = C08 spec, configured orders restamped, groups - and exactly that answer's notifications are broadcast). PROTOCOL, "
              "for every reachable state of client + channels + tasks (any interleaving of calls from several workers, abandoned calls, the exchange task descheduled "
              "/ scheduled / aborted, virtual time, subscriptions, polls): exchange_state_is_run; requests_seen_in_send_order (FIFO: processed ++ queued ++ lost = "
              "sent); call_stamps_clock / request_carries_callers_clock (the stamp is the client clock at the call, however late the exchange gets to it); "
              "response_is_answer_to_own_request (NO CROSS-TALK: a returned response is the exchange's response to that worker's own request in the state after the "
              "requests processed before, conforms to the spec, arrives >= latency after the call, elapsed measured from the call); offline_only_if_cancel_or_gone; "
              "nothing_overdue, response_task_is_for_its_request; notifications_are_balance_then_fill, account_stream_is_fills_in_order (channel = notifications of the "
              "requests seen >= one latency ago, in processing order; channel ++ in flight = everything produced); subscriber_sees_contiguous_segment (a late subscriber "
              "misses exactly what was sent before), subscription_starts_at_the_tail, poll_outcome (Lagged beyond the capacity ends the stream and hands over nothing), "
              "capacity_is_next_power_of_two (least power of two >= n, proved); gone_exchange_stays_gone, call_on_gone_exchange_fails_at_once (elapsed 0), "
              "abort_fails_waiting_calls, abandoned_call_is_invisible (a dropped receiver changes nothing else). REFINEMENT: no_completion_withheld (promptness), "
              "stream_refines_spec, protocol_step_refines_spec (every operation from every reachable state: abstraction of the new state = the specification's new "
              "state, same poll observation, completions match one to one with conforming responses; impossible iff impossible), protocol_refines_spec (whole "
              "histories). Tied to the code on every run by executing the same operation histories against the real MockExecution / MockExchange.")
LEVEL_NOTE = ("Trusted: Lean kernel; axioms propext/Classical.choice/Quot.sound only; the hand-written model incl. its reading of tokio's mpsc / oneshot / broadcast / "
              "timer semantics (sampled correspondence: 600 quick / 12 000 random + 30 941 enumerated + 10 corpus cases thorough; 14 hand mutants of the client, the "
              "dispatch loop, account.rs and the snapshot code are all caught); harness (gating wrapper, worker tasks, 16 yields per operation) and driver. Hypotheses: "
              "well-formed configuration (C08), distinct client order ids among the configured open resp. cancelled orders. Outside: Decimal rounding / overflow, "
              "multi-threaded runtimes (operations are atomic), wall-clock time, the `cancel_orders` / `open_orders` FuturesUnordered helpers of the trait.")
