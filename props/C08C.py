N = {"quick": 600, "thorough": 12000}
EXHAUSTIVE = {"quick": False, "thorough": True}
RULE = ("every case drives the real MockExecution (one clone per worker task) against a real MockExchange::run task over the real tokio channels (unbounded mpsc "
        "for requests, a oneshot per response, broadcast for account events) on a current-thread tokio runtime with a paused clock; the harness never sleeps "
        "(virtual time moves only by `adv`), runs the runtime to quiescence after every operation, schedules / deschedules the exchange task through a gating "
        "wrapper around the real `run` future and aborts it for `exch stop`. Random cases: a configuration (latency in {0,1,2,7,100,101} ms, fee in "
        "{0,0.001,0.01,0.1,0.25} and occasionally -0.01, broadcast capacity in {1,2,3,4,5,8,16,256}, 1-4 assets, 0-3 instruments, 5 % ill-formed so that "
        "open_order panics and the exchange task dies), 0-3 initial InstrumentAccountSnapshots with 0-4 orders each (open 45 % / cancelled 30 % / in flight, "
        "filled, expired, failed, cancel in flight 25 %; 20 % filed under a foreign instrument; 15 % of the cases with colliding client order ids), 1-4 "
        "workers, then up to 30 (quick) / 70 (thorough) operations: call from an idle worker 38 % (open 55 % with known / unknown instrument, market / limit, "
        "prices and quantities incl. 0 and negative; snapshot, balances, open orders, trades since, cancel), virtual time 20 % (0, 1, latency, latency-1, "
        "latency/2, latency+1, 1000, random), client clock 10 % (mostly monotone, 15 % arbitrary), new account_stream subscriber 8 %, poll of a subscriber "
        "12 %, exchange task descheduled / scheduled 4 % each, a worker dropping the future of its pending call 3 %, exchange aborted 1 % plus in a quarter "
        "of the cases somewhere in the last 40 % of the history; 3 % of the calls address a busy or non-existent worker (both sides answer `bad-op`); 1 % of the "
        "cases call MockExchange::cancel_order on the struct (unimplemented!). Thorough additionally enumerates every sequence of length <= 4 over 13 "
        "operation symbols (two concurrent workers, accepted and rejected orders, snapshot, cancel, adv 1 / 2, exchange off / on / stop, abandon, sub, poll) "
        "on a configuration with one configured open and one configured cancelled order, latency 2, capacity 4 (30 941 cases). 1 % of the random cases (both "
        "tiers) are LONG BURSTS on a big channel (capacity 128 / 129 / 200 / 256 = builder.rs:96, 64 .. capacity/2+20 accepted orders, one subscriber polled "
        "only when 128 .. capacity+40 notifications are waiting - all of them in ONE poll, or Lagged beyond the capacity -, one that keeps up, one polled at "
        "the end); 3 % of the cases start with the client clock within 120 ms of chrono's largest DateTime<Utc> (8210266876799999 ms) so that "
        "update_time_exchange's `checked_add_signed(latency/2).unwrap_or(time_request)` falls back to the request time. CONFIGURATION-SHAPE family (a fifth as many random cases again, own PRNG stream, ids cfg<n>): a `shape <m|b|k> <tok>*k` op directly after `cfg` makes the mock stand for "
        "Mock / BinanceSpot / Kraken (config, snapshot, instruments, client, request keys, configured orders; every exchange id that comes back is compared with it) and hands MockExchange::new "
        "spot / perpetual / future / option instruments (contract size 1 / 10 / 0.01, settlement asset = quote / base / third / one without balance, in-kind quoting, an InstrumentSpec with large "
        "minima); 8 % of them have an account without any balance. The model checks the op's syntax and ignores its content. A `clock` / `trades since` value "
        "outside chrono's range [-8334601228800000, 8210266876799999] ms is no DateTime<Utc>: not an input, `bad-op` on both sides. 24 committed corpus cases "
        "(corpus/C08C: A1_edges 10, A2_review 14 from the theorem review - the clock fallback at the end of the range with fills / configured orders / trade "
        "queries, latency/2 alone past the range, the range ends, capacity 256 with 129 / 130 / exactly 256 / 258 notifications behind, capacity 200 and 129 "
        "rounding up, capacity 1 vs 2 at the first fill, a panicking open_order, instrument indices of six and seven digits) pin the edge behaviours. `poll` "
        "drains the real BroadcastStream under `tokio::task::unconstrained` until it is pending or has ended (tokio's cooperative budget would otherwise "
        "answer Pending after 128 values although more are waiting - a scheduling artefact, not part of the protocol). Compared per operation: every completed call (worker, call number, elapsed virtual ms, response class, echo, "
        "order id / fill / exchange time or error kind with asset and amounts, balances with time stamps, instrument groups in the order returned with their "
        "orders, open orders, trades), the events handed to a polled subscriber and whether its stream ended, virtual time, and which worker waits on which "
        "call. A case is distinct by the SHA-1 of its op lines and non-trivial when the implementation's observation blocks differ at least once")
ASSUMPTIONS = [
    "the ledger part of the exchange is the C08 model, imported and reused unchanged; everything C08 assumes applies (exact rational arithmetic, asset / "
    "instrument names distinct, quantity means |q|)",
    "configuration well formed (C08: every initial balance has total = free, instrument assets have balances) for every theorem about reachable states and "
    "for the specification; an ill-formed configuration makes open_order panic: the model then treats the exchange task as gone (tied by correspondence "
    "only, the spec is silent)",
    "no two configured open orders and no two configured cancelled orders share a client order id (`Spec.distinctCids`) for the refinement theorems and the "
    "specification; with a collision the code keeps the last one per cid (modelled, theorems cid_collision_last_wins / cid_collision_loses_an_order, tied "
    "by correspondence, the spec is silent)",
    "a FnvHashMap<ClientOrderId, _> is modelled as the list of its values sorted by key; the harness sorts what it gets from the maps the same way (open "
    "orders by cid; inside one instrument group of a snapshot: open before cancelled, then cid) because the code's order there is hash-map iteration order "
    "under an unstable sort; instrument names are zero padded so that their string order is the order of the indices",
    "scheduling: operations are atomic and followed by the runtime running to quiescence (the harness yields 16 times; the longest wake-up chain needs 5); "
    "latency tasks with the same deadline wake in spawn order (tokio's timer wheel is FIFO per slot, and all tasks spawned for one exchange have the same "
    "latency, so deadlines are monotone in spawn order); the exchange task not being scheduled is modelled by a gate, its death by abort",
    "tokio's unbounded mpsc is FIFO, a oneshot resolves with the value sent or with an error when the sender is dropped, a broadcast channel of capacity n "
    "holds next_power_of_two(n) values and a receiver more than that behind gets Lagged; a Sender clone held by a sleeping notification task keeps the "
    "channel open; the client's own `event_rx` keeps one receiver alive so `send` never fails",
    "the client's clock function is an injected cell set by `clock <t>`; tracing output and serde / derive impls are not modelled",
    "time: the protocol is observed in whole milliseconds (`timestamp_millis`); the client clock and every `since` lie in chrono's DateTime<Utc> range "
    "[-8334601228800000, 8210266876799999] ms (there is no other DateTime<Utc>; the harness and the driver answer `bad-op` outside). Inside that range "
    "NOTHING is assumed: `time_request + latency/2` past the end is modelled and specified as the code does it (`stampTime` / `Spec.exchTime`: the request "
    "time itself; chrono 0.4.45: `checked_add_signed` fails exactly when the sum exceeds MAX_UTC, `TimeDelta::milliseconds((u64/2) as i64)` never panics). "
    "Configured order times (`ord … O <id> <time>`) must be in range (harness `unwrap`s)",
    "`poll` is observed with the stream polled under `tokio::task::unconstrained` (the cooperative budget of 128 per task poll is a scheduling artefact: "
    "a budget-limited consumer is handed the rest when it is polled again, which the model's atomic `poll` = 'until pending or ended' abstracts); the "
    "exchange task, the workers and the latency tasks run under the normal budget (the harness yields 16 times after every operation)",
    "the C08 model file (Model/MockExchange.lean) stamps `t + latency/2` unconditionally and is NOT edited here: `XState.step` feeds it the request time "
    "`ledgerTime latency t` (= t in range, t - latency/2 past the end) so that its stamp is the code's; C08's own check keeps its unconditional stamp",
]
SOURCE_FILES = ["barter-execution/src/client/mock/mod.rs", "barter-execution/src/exchange/mock/request.rs",
                "barter-execution/src/exchange/mock/mod.rs", "barter-execution/src/exchange/mock/account.rs",
                "barter-execution/src/client/mod.rs", "barter/src/execution/builder.rs"]


def signature(ops, k, key, impl_line, spec_line):
    """clause = observation key without the worker prefix; op = operation class"""
    op = ops[k].split() if k < len(ops) else ["?"]
    cls = op[0]
    if op[0] == "call" and len(op) >= 3:
        cls = "call_" + op[2]
    elif op[0] == "exch" and len(op) >= 2:
        cls = "exch_" + op[1]
    key = key.split(".", 1)[1] if key.startswith("w") and "." in key else key
    return "clause=%s/op=%s" % (key, cls)


CLAIM = False
TECHNIQUE = ("Lean 4: the C08 exchange model extended by the configured order maps (projection lemma: every C08 theorem transfers); the client / channel / task "
             "system as a transition system over operations with history variables; one invariant (FIFO of call ids, every history record = the exchange's response "
             "after the records before it, latency tasks = spawned minus the first `fired`, event log = notifications of the woken tasks, justified completions, "
             "subscriber segments) kept by every operation, a tracking invariant for promptness, and a simulation with a history-only specification machine "
             "(no exchange state, no timers, no channel buffer) proved operation by operation and over whole histories; correspondence of model and specification "
             "with the real MockExecution + MockExchange::run under a paused tokio clock")
LEVEL_TEXT = ("Proof (sub-check of C08). lean/BarterModel/Props/C08C.lean, 51 theorems (44 general statements for unbounded histories / arbitrary configurations, 7 closed "
              "WITNESSES at excluded points; none `_partial`). EXCHANGE WITH CONFIGURED ORDERS: ledger_is_C08 (conjunct 3: over whole histories the ledger part is the "
              "C08 exchange run on the same requests at their ledger times) + ledger_time_cases + ledger_is_C08_in_range (in chrono's range: on the very same requests) "
              "+ witness ledger_differs_past_max; orders_never_change (market orders never rest: cancelled orders untouched, open orders keep all but the time stamp, "
              "for every history); EXCHANGE TIME exchange_time_cases (t + latency/2 if that is <= 8210266876799999 ms = chrono's MAX_UTC, else t ITSELF - "
              "update_time_exchange's `unwrap_or(time_request)`; never before t, never past the range) + witness exchange_time_falls_back_at_max (one millisecond "
              "decides) + spec_exchange_time (the separately written Spec.exchTime is the same function); update_time_stamps (that time on the exchange clock and on "
              "every balance - through the C08 ledger -, not on cancelled orders) / open_orders_carry_last_request_time (the LAST request's exchange time, also "
              "backwards) with their `_in_range` forms (= the statements before the fallback was modelled, now with the hypothesis) and witness "
              "open_order_time_falls_back; init_ignores_filing, init_keeps_configured_orders (with distinct cids exactly the configured open / cancelled orders, "
              "listed by cid; other states dropped), cid_collision_loses_an_order (maps keyed by cid ALONE: an order on another instrument with the same cid is lost), "
              "fresh_id_collides_with_configured_id; snapshot_groups / instrument_listed_iff_has_order / snapshot_groups_eq_spec (instruments strictly ascending, each "
              "once, a group = exactly that instrument's orders stably, never empty; instruments without orders - configured or filed empty - are not listed; the "
              "grouping is unique); cancel_request_dropped; answers_refine_spec + configured_orders_reported_forever (after ANY history every response conforms to "
              "the history-only answer - ledger = C08 spec, configured orders restamped with Spec.exchTime, groups - and exactly that answer's notifications are "
              "broadcast). PROTOCOL, for every reachable state of client + channels + tasks (any interleaving of calls from several workers, abandoned calls, the "
              "exchange task descheduled / scheduled / aborted, virtual time, subscriptions, polls): exchange_never_dies (well-formed configuration, NO hypothesis "
              "on the cids: the exchange task exists after every history without `exch stop`) + exchange_state_is_run (while it exists its state is the initial "
              "exchange run over the processed requests, well formed) + witness ill_formed_configuration_kills_exchange (outside the hypothesis open_order panics: "
              "task gone, every call offline at once); requests_seen_in_send_order (FIFO: processed ++ queued ++ lost = sent); request_carries_callers_clock (the "
              "stamp is the client clock at the call, however late the exchange gets to it); response_is_to_own_request (NO CROSS-TALK from well-formedness alone: a "
              "returned response is the exchange's response to that worker's own request in the state after the requests processed before, arrives >= latency after "
              "the call, elapsed measured from the call) and its corollary response_is_answer_to_own_request (with distinct cids it conforms to the spec); "
              "offline_only_if_cancel_or_gone; nothing_overdue, response_task_is_for_its_request; notifications_are_balance_then_fill, "
              "account_stream_is_fills_in_order (channel = notifications of the requests seen >= one latency ago, in processing order; channel ++ in flight = "
              "everything produced); subscriber_sees_contiguous_segment (a late subscriber misses exactly what was sent before); capacity_is_next_power_of_two "
              "(conjuncts 2-3: >= n and the LEAST such power of two) + witness capacity_one_loses_stream_at_first_fill (capacity 1 < the two notifications of a fill: "
              "Lagged at the first poll, nothing delivered; capacity 2 delivers both); gone_exchange_stays_gone, call_on_gone_exchange_fails_at_once (elapsed 0), "
              "abort_fails_waiting_calls, abandoned_call_is_invisible (a dropped receiver changes nothing else). REFINEMENT: no_completion_withheld (promptness), "
              "stream_refines_spec, protocol_step_refines_spec (every operation from every reachable state: abstraction of the new state = the specification's new "
              "state, same poll observation, completions match one to one with conforming responses; impossible iff impossible), protocol_refines_spec (whole "
              "histories). DEFINITIONAL / BOOKKEEPING (in the file for reference, not results): ledger_is_C08 conjuncts 1-2 and the open-order part of "
              "update_time_stamps (the definition of XState.step read back), capacity_is_next_power_of_two conjunct 1, poll_outcome (the three cases of Sys.drain), "
              "call_stamps_clock (one unfolding of Sys.call), subscription_starts_at_the_tail (Sys.step writes the subscriber down; content: settle leaves "
              "subscribers alone), cid_collision_last_wins (a generic insertKey fact), reach_cfg. Tied to the code on every run by executing the same operation "
              "histories against the real MockExecution / MockExchange.")
LEVEL_NOTE = ("Trusted: Lean kernel; axioms propext/Classical.choice/Quot.sound only; the hand-written model incl. its reading of tokio's mpsc / oneshot / broadcast / "
              "timer semantics and of chrono's DateTime range (sampled correspondence: 600 quick / 12 000 random + 30 941 enumerated + 24 corpus cases thorough); "
              "harness (gating wrapper, worker tasks, 16 yields per operation, poll under tokio::task::unconstrained) and driver. Mutants: ONE hand mutant of C08C's "
              "own is committed and re-run by tools/mutant.sh: mutants/C08C_time_overflow_clamps_to_max.patch (`unwrap_or(time_request)` -> "
              "`unwrap_or(DateTime::MAX_UTC)`; caught at quick tier by corpus and random cases: 3 correspondence disagreements, 7 oracle failures, signatures clause=bal/op=adv on corpus/A2_review.ops:max_clock_review_witness and clause=open/op=adv on huge_latency_keeps_request_time); the mutants of the client, the dispatch "
              "loop, account.rs and the snapshot code that the check was developed against were run ad hoc and are NOT archived - do not count them. Hypotheses: "
              "well-formed configuration (C08) for every theorem about reachable states; distinct client order ids among the configured open resp. cancelled orders "
              "ONLY where a statement mentions the specification (Conforms / abs / Spec.*). CORRESPONDENCE-ONLY KEYS (impl vs model, the spec does not print or "
              "constrain them): `echo` / `cecho` (the request echoed in the response), the rejection reason `err kind|instrument|insufficient …` (the spec says "
              "`resp rejected` only: Conforms (.rejected _) .rejected := True), `resp mismatch`, and everything on ill-formed or cid-colliding configurations (spec "
              "mode prints nothing there). The spec's `ev` / `stream` lines come from Spec.SSys.drain over Spec.SSys.sent (the notifications DERIVED from the "
              "requests seen) and Spec.SSys.closed; the lag / close RULE of drain (more than the capacity behind -> ended with nothing; else everything since) is the "
              "same three-line formula as the model's Sys.drain - it is tokio's broadcast semantics, not documented intent, and is tied to the code by "
              "correspondence (now also for 129..256+ values behind). NO THEOREM for: the protocol on cid-colliding configurations (only the no-cross-talk / FIFO / "
              "stream theorems, which do not need distinct cids, apply) and on ill-formed ones beyond the witness; configured order ids vs exchange ids beyond "
              "fresh_id_collides_with_configured_id. Outside: Decimal rounding / overflow, multi-threaded runtimes (operations are atomic), wall-clock time, "
              "sub-millisecond time stamps, tokio's cooperative budget inside a consumer's poll loop, the `cancel_orders` / `open_orders` FuturesUnordered helpers "
              "of the trait.")
