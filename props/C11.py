N = {"quick": 300, "thorough": 10000}
EXHAUSTIVE = {"quick": False, "thorough": True}
RULE = "tbd"
ASSUMPTIONS = []
SOURCE_FILES = ["barter-instrument/src/index/mod.rs", "barter-instrument/src/index/builder.rs",
                "barter/src/engine/state/instrument/mod.rs", "barter/src/engine/state/asset/mod.rs",
                "barter/src/engine/state/connectivity/mod.rs", "barter/src/engine/state/builder.rs",
                "barter/src/execution/builder.rs"]
CLAIM = True
TECHNIQUE = "tbd"
LEVEL_TEXT = "tbd"
LEVEL_NOTE = "tbd"
