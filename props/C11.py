N = {"quick": 300, "thorough": 10000}
EXHAUSTIVE = {"quick": False, "thorough": True}
RULE = ("random collections of 0-8 instrument definitions over 1-4 exchanges (all four instrument kinds, settlement assets, specs with asset / contract / quote "
        "quantity units, 4 asset names shared between exchanges with per-exchange exchange-names, 25 % verbatim repeats, 20 % copies moved to another exchange); "
        "per case: `build` (IndexedInstruments::new: the three tables, positional read-back of every definition, find_* round trips), three `perm` ops "
        "(re-index a shuffled order, 30 % with an element repeated, compare with PartialEq), `engine` (real EngineState builder: instrument / asset / connectivity "
        "IndexMaps read by position via instrument_index / asset_index / get_index, and once more through the accessors the engine itself routes through - "
        "instrument_index_mut / asset_index_mut / connectivity_index_mut / connectivity_index, the connectivity entries identified by address: key `eresm`), two `exec` ops (real ExecutionBuilder with add_mock / add_live for a random "
        "subset of exchanges, 10 % with an unknown or duplicate exchange). 12 % of the cases violate the well-formedness hypotheses on purpose (model vs code only; "
        "the spec stays silent on the clauses that need them); in every 6th case a copy moved to ANOTHER exchange keeps its instrument name_internal (names unique per "
        "exchange but not over the collection: the spec demands `res` / `rt` there and is silent on the engine clause only). Thorough: additionally 32 collections of 0-5 definitions with EVERY insertion order (1,1,2,6,24,120 "
        "orders per size). Input-domain families, separately seeded and appended (the cases above keep their inputs; exchange labels are positions in the WHOLE "
        "ExchangeId enum, 42 variants in declaration order): `w` (N/8 cases: 0-12 definitions over 1-8 exchanges drawn from the whole enum, every fourth case with the first and "
        "the last variant; instrument names in no particular order out of 1000; 2-6 internal asset names whose exchange names are an arbitrary per-exchange function, so that two "
        "internal names share one exchange name and one internal name has unrelated exchange names on two exchanges; decimals from {0, 1, 2, 5, 9, 10, 100, 1e12-1, 1e12}, "
        "expiries from {0, 1, 2, 999, 1000, one day, 1e12} ms; near-copies that differ in ONE late member of the derived order; perm = reverse order / every element twice / "
        "one element four times; exec = all exchanges of the collection, subsets, an unmentioned exchange of the enum, a duplicate) and `l` (N/60 cases: 50-130 definitions over 2-8 "
        "exchanges and 8-40 asset names, every tenth one - the fifth first, so also in the quick tier - 260-320 definitions: positions past u8; every fourth with names shared "
        "between exchanges). Set-up family `g` (configuration-shape audit; max(8, N/6) cases, own seed; 0-9 definitions over 1-5 exchanges of the whole enum): three `engcfg` ops - the engine "
        "state assembled by an arbitrary SEQUENCE of EngineStateBuilder calls (time_engine_start / trading_state never, once or twice, before, between or after the `balances` calls; "
        "initial balances for none / some / all exchange-assets, in index order, reversed or shuffled, in 0-3 calls, 30 % with a key repeated, the same asset name on several exchanges "
        "with different values; 4 % with a key outside the collection = documented panic): keys `trd`, `bal` (balance at every POSITION), `balr` (balance found for every supplied key "
        "via find_asset_index + asset_index), `baln` - and three `execk` ops (ExecutionBuilder with the KIND of link named per exchange, `m<E>` add_mock / `l<E>` add_live: none / all / "
        "only the last / only the first / a subset of the exchanges, any order, all mock / all live / mixed; key `nfut` = mock-exchange and manager-init futures held by the build). "
        "Distinct by SHA-1 of the op lines; non-trivial when the implementation's observation blocks differ at least once")
ASSUMPTIONS = [
    "WFAssets (needed by references_resolve, lookups_inverse_asset, tables_aligned_assets, resolve_by_name, engine_tables_resolve): within one exchange an asset's "
    "name_internal determines its name_exchange. At the excluded points the real code resolves an asset reference to the first asset of that exchange with that "
    "internal name and the engine's asset IndexMap (keyed by exchange + name_internal) collapses the entries so later positions shift; model and code agree there "
    "(exercised on every run), the property's resolution clause does not hold",
    "each spec key is gated by its own hypothesis only (oracle review C11-M1): `resx` and the exchange bit of `rt` by none (exchange_resolves_by_name, rt_exchanges), the "
    "asset bit of `rt` by WFAssets (rt_assets), the instrument bit of `rt` by per-exchange uniqueness of instrument names WFNamesPerExchange = WFNamesEx (rt_instruments_weak), "
    "`res` by WFAssets and WFNamesPerExchange (resolve_by_name_weak); only the engine keys `eres` / `eresm` need WFAssets and the global WFNames",
    "WFNames (needed by lookups_inverse_instrument, tables_aligned_instruments, resolve_by_name, engine_tables_resolve): instrument name_internal is unique over the "
    "collection (documented in instrument/name.rs as unique across all exchanges). At the excluded points find_instrument_index returns the first match and the "
    "engine's instrument IndexMap (keyed by name_internal) collapses entries / instrument_index panics past the end; model and code agree there",
    "ExchangeId, SmolStr names, Decimal and DateTime fields are naturals ordered like the Rust values (the harness maps them order-preservingly: exchange label k = the k-th of the "
    "42 ExchangeId variants in declaration order, fixed-width names 0-999, non-negative integer decimals and millisecond expiries up to 1e15); the derived lexicographic Ord of the Rust "
    "structs is modelled by an injective sort key. An op outside these ranges (exchange label >= 42, name number > 999, decimal / expiry > 1e15, enum position out of range, a token "
    "that is not a plain natural, a perm index past the definitions) is answered `bad-op` by harness, model and spec alike (corpus D4_malformed_ops). NOT representable in this "
    "coding, hence not generated: fractional or negative Decimals (real tick sizes are fractional; only their order and equality enter the builder), two Decimals equal in value "
    "but of different scale (1.0 / 1.00: rust_decimal's Eq / Ord / Hash identify them, so the builder's dedup merges such definitions), names equal up to case (sub-check C11N "
    "runs the real name constructors on raw strings)",
    "slice::sort + Vec::dedup, IndexMap::from_iter / get_index and Iterator::find_map are modelled by their documented list semantics (List.mergeSort + adjacent dedup, "
    "insert-or-replace-in-place, first match)",
    "engine-state set-up (op `engcfg`): the EngineStateBuilder options are independent - the state is the same function of the LAST trading_state given (Disabled by default) and of "
    "the last balance supplied per ExchangeAsset key (the builder keeps them in a hash map; documented) whatever the order and multiplicity of the calls; the balance of key (E, name) "
    "is held by exactly the entry whose position is find_asset_index(E, name) and by no other (spec keys `balr` / `baln`, under WFAssets). A balance for a key the collection does not "
    "hold makes `build` panic (AssetStates::asset_mut, documented panic): model and code agree, the spec is silent on such an op. time_engine_start is not observed (the default is the "
    "wall clock); the instrument-data initialiser, global data, PositionManager / Orders are the defaults (generate_indexed_instrument_states takes no initial positions or orders)",
    "execution set-up (op `execk`): add_mock and add_live fill the same table, so the spec ignores the kind of link; add_mock for an exchange that has a non-spot instrument panics "
    "(generate_mock_exchange_instruments: `MockExchange does not support`, documented) - model and code agree, the spec is silent there. An exchange without any instrument cannot "
    "occur in an IndexedInstruments (exchanges and assets are collected from instruments only), so `exchange with assets but no instruments` is not a shape of the API",
    "ExecutionBuilder is reduced to its ExchangeId -> ExchangeIndex table; transmitters are opaque (only Some/None per slot is observed); MockExchange set-up is exercised for spot-only exchanges, a stub live client otherwise",
]
SOURCE_FILES = ["barter-instrument/src/index/mod.rs", "barter-instrument/src/index/builder.rs",
                "barter/src/engine/state/instrument/mod.rs", "barter/src/engine/state/asset/mod.rs",
                "barter/src/engine/state/connectivity/mod.rs", "barter/src/engine/state/builder.rs",
                "barter/src/execution/builder.rs", "barter-instrument/src/instrument/mod.rs", "barter-instrument/src/instrument/kind/mod.rs",
                "barter-instrument/src/instrument/spec.rs", "barter-instrument/src/asset/mod.rs", "barter-instrument/src/lib.rs", "barter-instrument/src/index/error.rs"]
PREBUILD = [["python3", "tools/rust2lean_sm.py", "--require", "indexer"]]
CLAIM = True
TECHNIQUE = ("Lean 4: sorted-duplicate-free lists are determined by their member set (strict_ext) under an injective sort key => order independence; enumerate gives "
             "key = position; first-match lookups over duplicate-free tables are inverses of positional reads; IndexMap collection of distinct keys is the identity; "
             "correspondence with IndexedInstruments::new, find_*, EngineState::builder and ExecutionBuilder")


def signature(ops, k, key, impl_line, spec_line):
    op = ops[k].split()[0] if k < len(ops) else "?"
    return f"clause={key} op={op}"


LEVEL_TEXT = ("Proof. lean/BarterModel/Props/C11.lean proves for EVERY finite list of instrument definitions (any order, duplicates, any number of exchanges, all kinds, "
              "settlement and unit assets): the builder never panics (build_total); in all three tables the entry at position k has index k (dense); the exchange and "
              "asset tables are permutations of the distinct exchanges / exchange-assets of the input and the instrument table has one entry per distinct definition "
              "(unique_exchanges, unique_assets, count_instruments); every exchange reference points at its own exchange (exchange_reference_resolves); the result depends "
              "only on the SET of definitions, hence on no insertion order or multiplicity (order_independent, order_independent_perm); find_exchange_index/find_exchange "
              "are mutual inverses (lookups_inverse_exchange); connectivity and execution-transmitter tables hold at slot k the exchange with index k, a transmitter exactly "
              "where one was added, in any add order, without panic (tables_aligned_connectivity, tables_aligned_exec, exec_add_total). Under the named hypotheses WFAssets / "
              "WFNames: reading the instrument table back through the other tables by position yields exactly the distinct definitions, each once (references_resolve), every "
              "definition is found by name at exactly one index and reads back as itself (resolve_by_name), asset and instrument lookups are mutual inverses "
              "(lookups_inverse_asset, lookups_inverse_instrument), and the engine's instrument / asset tables hold at position k the entity with index k and read back to the "
              "definition (tables_aligned_instruments, tables_aligned_assets, engine_tables_resolve). Unbounded in collection size; the suite's builder tests fix 1-3 instruments "
              "in one order. All full strength, no _partial theorem.")
LEVEL_NOTE = ("Trusted: Lean kernel; axioms propext/Classical.choice/Quot.sound only; the hand-written model (sort keys for the derived Ord, list semantics of sort/dedup/IndexMap) "
              "tied to the code by sampled correspondence (300 quick / 10k random + every insertion order of 32 collections of <= 5 definitions thorough, plus the input-domain families: whole ExchangeId enum, wide values, collections of up to 320 definitions) through the real "
              "IndexedInstruments, EngineState builder and ExecutionBuilder; harness and driver. Hypotheses WFAssets (asset internal name determines the asset within an exchange) "
              "and WFNames (instrument internal names unique) are needed only for the clauses listed; at the excluded points the code mis-resolves / collapses IndexMap entries "
              "(documented precondition, model and code agree there). Transmitter identity is not observed (only presence per slot). "
              "IndexedInstrumentsBuilder::{add_instrument, build}, IndexedInstruments::{new, find_* (6)}, the two free lookups, Instrument::{map_exchange_key, map_asset_key_with_lookup} and InstrumentKind::settlement_asset are additionally "
              "regenerated from the source by tools/rust2lean_sm.py (Generated/Machines4.lean, group indexer; sort() = stable List.mergeSort by an explicit ordering parameter, dedup() = adjacent dedup, iterator chains = list functions, "
              "the two expect()s = Rust.unreachable) and proved, for every injective coding of decimals / instants as the model's Nats, to be the model's addInstrument / lookups / mapAssetKeyWithLookup (no hypothesis) and the model's "
              "Builder.build / build under the one hypothesis that the three UNTRANSLATED #[derive(Ord)] orderings are the lexicographic orders the model's sort keys spell out (index_builder_agrees_with_source); the translator, its prelude "
              "and the stated meaning of the iterator / sort vocabulary are trusted for that tie.")
SUBCHECKS = ["C11N"]
