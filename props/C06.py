N = {"quick": 400, "thorough": 20000}
EXHAUSTIVE = {"quick": False, "thorough": True}
RULE = "tbd"
ASSUMPTIONS = []
SOURCE_FILES = ["barter-data/src/exchange/binance/spot/l2.rs", "barter-data/src/exchange/binance/futures/l2.rs",
                "barter-data/src/exchange/binance/book/l2.rs", "barter-data/src/books/mod.rs", "barter-data/src/error.rs",
                "barter-data/src/streams/reconnect/stream.rs"]
CLAIM = True
TECHNIQUE = "tbd"
LEVEL_TEXT = "tbd"
LEVEL_NOTE = "tbd"
