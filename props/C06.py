N = {"quick": 400, "thorough": 20000}
EXHAUSTIVE = {"quick": False, "thorough": True}
RULE = ("per case: rule set spot|futures, 1-3 instruments on one connection; per instrument a simulated venue of 1-40 (thorough 1-60) elementary changes over "
        "<= 6 prices (both sides, 15/30/50 % deletions, contiguous or gapped ids), cut into genuine depth messages at random cut points (U=lo+1 / first id in "
        "range, pu=lo, u=hi; levels = amounts at hi of the touched prices, shuffled, optionally with restated untouched prices and repeated levels), REST snapshot "
        "= venue book at an id chosen among cut points, cut+-1, 0, last id(+1) or any event id; delivery = the in-order stream started early / at the covering "
        "message / late / anywhere, 45 % unperturbed, else 1-2 of {drop, duplicate adjacent, duplicate later, swap neighbours, replay an old prefix}; 12 % of the "
        "cases add 1-6 non-genuine messages with arbitrary ids around the snapshot id; 3 % messages for a never-subscribed symbol; instruments' deliveries "
        "interleaved at random; 4 % of the cases have a missing / non-snapshot initial event (init error). On top of the N cases, N/4 cases (ids p…) from an "
        "independent random stream have DEPTH-LIMITED REST snapshots as the code's fetchers request them (`depth k n`, n in 1..4 with <= 6 prices per side; 15 % of "
        "the instruments of such a case keep the full depth): the snapshot is the venue's book at its id cut to the best n levels per side; in these cases harness and "
        "model also print, per instrument with a declared depth, one `lv<k>:<side>:<price> <amount>` line per price of the venue, and the oracle states those lines "
        "for exactly the prices the snapshot covers, an admitted update wrote or the venue changed since the snapshot id (and the whole-book line only when the limit "
        "cuts nothing). On top of these, N/8 cases (ids d…, input-domain audit) from a third independent random stream draw the classes the two families above never "
        "produce: every id of the case shifted by one of {0, 2^32-20, 22 611 425 143, 10^12, 2^53-20, 2^63-20, 2^64-401, 2^64-1 000 001} (each in turn, so the stream of "
        "a case crosses the boundary); 50 %: prices on grids of 1e-8 ticks / at 1e12 / with 12 significant digits / across 1 and amounts from {1e-8, 123456789.12345678, 1e12, "
        "1e12+1e-8, 0.1, 0.30000000, 2.5}; 50 %: a quarter of the levels of snapshots and messages spell their price with another scale (100 / 100.0 / 100.00); 40 %: "
        "non-genuine messages in 40 % instead of 12 % of the cases plus 1-4 non-genuine messages that CONTINUE a delivered one (pu = its u, u = its u..u+2, U among 0, "
        "its u, its u+1, u+1, u+3, its U - i.e. also U > u, which the futures rule admits) whose sides state up to 4 random prices, repeats with different amounts "
        "included; 40 %: 2-4 connections with `reconnect` also before the first connection, after a failed `start` (25 % of the connections), right after `start`, after "
        "a `msg` (the `end` observation left out, 30 %) and twice in a row; 25 % of these cases have depth-limited snapshots. The corpus (corpus/C06/domain_edges.ops) "
        "holds hand-written inputs of the same classes incl. ids equal to 2^64-1, snapshot id 0 with the first message exactly at the boundary for both rule sets, a "
        "connection without instruments, and `msg` / `end` while no connection is up (rejected as `bad-op` by harness, model and spec alike). On top of these, N/10 cases (ids cfg…, "
        "configuration-shape audit) from a fourth independent random stream have 4 / 5 / 7 / 11 / 12 instruments on the connection (symbols that are prefixes of one another: SYM1 / SYM10 / "
        "SYM11), venues of <= 12 changes, each instrument subscribed-but-silent on a connection with probability 1/2, 12 % messages for a never-subscribed symbol of which 70 % extend a "
        "subscribed one (SYM3 subscribed, SYM30 / SYM300 not), 30 % with `reconnect` at every position, 25 % depth-limited (corpus/C06/cfg_many_instruments.ops: 12 instruments with the "
        "break on the last, 11 with the break on a middle one and re-initialisation, 4 all silent). Every snapshot and message is JSON parsed by the real "
        "serde types, the transformer is built by the real ExchangeTransformer::init, every message goes through the real Transformer::transform (and a "
        "stand-alone real *Sequencer::validate_sequence whose public fields are printed), delivered events through the real OrderBook::update, and the whole "
        "output list through the real with_termination_on_error(|e| e.is_terminal()). thorough additionally enumerates, for both rule sets, every sequence of "
        "<= 3 messages over 18 (U,u,pu) triples around a snapshot at id 5 (12 348 cases) and every sequence of <= 2 such messages around a snapshot at id 2^32-1 "
        "(684 cases, ids y…). A case is distinct by the SHA-1 of its op lines and non-trivial "
        "when the implementation's observation block changes at least once")
ASSUMPTIONS = [
    "the venue's contract (trusted, DESIGN C06): delivered depth messages are genuine - each states, for some id range (lo,hi], the amount at hi of every price "
    "touched in the range (u=hi; spot U=lo+1; futures pu=lo and lo < U <= first event id in the range) - and the REST snapshot is the venue's book as of its "
    "lastUpdateId; which messages arrive, how often and in which order is unrestricted. The sequencer theorems (trichotomy, admitted_chain) need no assumption at all",
    "snapshot depth: the REST snapshot holds the best 100 levels per side only - the code's fetchers request `&limit=100` (spot/l2.rs:54, futures/l2.rs:57; the harness "
    "bypasses the HTTP fetch and feeds snapshots of declared depth 1-4 over <= 6 prices instead). The full-book reading of 'the REST snapshot is the venue's book' "
    "(GenuineSnapshot; hypothesis of book_is_truth, book_is_truth_exact, no_false_alarm, connection_start and of everything derived from them) is therefore FALSE in the "
    "real wiring for an instrument whose book is deeper than 100 levels on a side. The reading that holds is per price level (GenuineSnapshotOn, "
    "truncated_snapshot_genuine_on): 'the book equals the exchange's book as of the sequence it reports' is claimed, and proved (book_is_truth_on, "
    "connection_book_is_truth_on), at every price that the snapshot covers (all prices of a side on which it lists fewer than `limit` levels, otherwise the prices at "
    "least as good as its worst level of that side), that an admitted update has written since, or that the venue changed since the snapshot id; at any other price "
    "nothing is claimed and the local book can differ silently (truncated_snapshot_witness: the venue deletes its best bid, the local book shows an empty bid side "
    "while the venue's best bid is the uncovered second level). This is inherent in the venue's documented procedure (a depth-limited snapshot does not reveal levels "
    "outside it until they change); the full-depth theorems are the instance 'every price covered' and apply as they stand to books of at most 100 levels per side",
    "no_false_alarm (futures): the snapshot's lastUpdateId is the id of an event of the venue and the delivery contains the message whose range contains it "
    "(c0 < s <= u); a futures delivery that starts with the message *after* a snapshot taken exactly at a message boundary (pu = s) is rejected by the "
    "published first-message rule U <= s <= u itself - this is the venue's rule, not a deviation of the code",
    "subscription ids on one connection map to pairwise distinct instrument keys (connection-level theorems)",
    "snapshot sides strictly ordered (book_is_truth) and free of zero amounts (book_is_truth_exact): what OrderBook::new yields for a venue snapshot (C05 precondition)",
    "exact rationals for Decimal; u64 ids as unbounded naturals (last_update_id + 1 overflow at 2^64 not modelled; ids up to 2^64-1 are generated / in the corpus: inside "
    "validate_sequence the sum is only evaluated after the stale test `u <= last` failed, i.e. with last < u <= 2^64-1, so it cannot overflow there - only a direct call "
    "of the public validate_first_update / validate_next_update on a sequencer holding 2^64-1 could); time_exchange/time_engine/time_received not modelled",
    "`msg` / `end` are ops of a connection that is up: before the first successful `start`, after a failed `start` of a new connection and after `reconnect` they are "
    "rejected (`bad-op`) by harness, model driver and spec driver alike (generated cases never contain them; a minimiser that deletes ops can produce them)",
    "Transformer::transform's `input.id() == None => vec![]` arm is unreachable for these message types (id() is always Some) and is not modelled; the FnvHashMap "
    "instrument map is an association list (first match = only match for distinct subscription ids)",
    "with_termination_on_error is modelled by its list semantics (map_while); that the outer reconnecting stream then re-initialises and emits one Reconnecting "
    "notice is property C12",
]
SOURCE_FILES = ["barter-data/src/exchange/binance/spot/l2.rs", "barter-data/src/exchange/binance/futures/l2.rs",
                "barter-data/src/exchange/binance/book/l2.rs", "barter-data/src/books/mod.rs", "barter-data/src/error.rs",
                "barter-data/src/streams/reconnect/stream.rs"]
PREBUILD = [["python3", "tools/rust2lean_sm.py", "--require", "sequencer"]]


def signature(ops, k, key, impl_line, spec_line):
    op = ops[k].split() if k < len(ops) else ["?"]
    rules = ops[0].split()[1] if ops and ops[0].startswith("init") and len(ops[0].split()) > 1 else "?"
    if key == "alive":
        want = spec_line.split()[-1]
        clause = "false_alarm_or_missing_error" if want == "1" else "break_not_reported"
    elif key.startswith("book") or key.startswith("fbook"):
        clause = "book_differs_from_venue_at_reported_sequence"
    elif key.startswith("lv") or key.startswith("flv"):
        # depth-limited snapshot: the per-level claim at a covered / written / venue-changed price
        clause = "level_differs_from_venue_at_reported_sequence"
    else:
        clause = key
    return f"clause={clause} rules={rules} op={op[0]}"


CLAIM = True
TECHNIQUE = ("Lean 4: complete case characterisation of validate_sequence against the venue's published rule (both rule sets, one parameterised model); chain "
             "invariant by induction over arbitrary deliveries; ground-truth venue (list of changes, bookAt) with a key lemma (a genuine message for (lo,hi] moves "
             "bookAt x to bookAt hi for every lo <= x <= hi) composed with C05's abs/upsert refinement and canonical form into a coupling invariant (Synced) for one "
             "instrument and for a whole multi-instrument connection; no-false-alarm by induction over gap-free runs; equivalence of the per-message consumer view "
             "with the with_termination_on_error list semantics; correspondence with the real serde types, ExchangeTransformer::init, Transformer::transform, "
             "*Sequencer::validate_sequence, OrderBook::update and with_termination_on_error")
LEVEL_TEXT = ("Proof. Lean theorems over the sequencing model composed with C05's book (lean/BarterModel/Props/C06.lean), all full strength (no _partial), every "
              "one for both the spot and the USD-futures rule set: validate_sequence_trichotomy (every state, every message: stale => dropped, state unchanged; "
              "non-stale and extending => admitted, counter+1, last=u; non-stale and not extending => InvalidSequence{last,U}, state unchanged - exclusive and "
              "exhaustive), sequencer_error_terminal / terminal_iff (the only sequencer error is the terminal one), admitted_chain / admitted_linked / "
              "admitted_not_stale (for ANY message list after a snapshot at s, even continuing past errors, the admitted updates satisfy spot: first U<=s+1<=u then "
              "U=prev u+1; futures: first U<=s<=u then pu=prev u; the sequencer counts exactly them and reports the last u), key_lemma / key_lemma_side / untouched / bookAt_is_history_prefix (for ids strictly increasing bookAt(id of c) is the history up to c applied in order), "
              "book_is_truth (every delivery of genuine messages - any drops, duplicates, swaps, replays, early/late start - processed to the first error leaves a "
              "strictly ordered book whose sequence is the sequencer's last id and whose two sides denote exactly the venue's book as of that sequence; an early stop "
              "is a terminal error), book_is_truth_exact (with a zero-free snapshot the book is literally specBook, the value the spec driver computes from the venue), "
              "book_is_truth_step, no_false_alarm (any number of messages stale w.r.t. the snapshot, in any order, followed by a gap-free in-order genuine run whose "
              "first message covers the snapshot point: no error, every run message admitted, book = venue book at the last u), other_sequencer_untouched / "
              "unknown_subscription / transform_is_sequencer / other_book_untouched (routing by subscription id; unknown id => one non-terminal Unidentifiable, "
              "no state change), told_iff (a live connection ends exactly on a subscribed, non-stale, non-extending message), connection_start + "
              "connection_book_is_truth (several instruments interleaved on one connection: every book is its own venue's book at the sequence it reports, after any "
              "delivery), stream_view / terminate_spec (per-message view = whole output through with_termination_on_error; nothing after the first terminal error is "
              "delivered), spec_step_agrees and isGenuine_iff (the executable spec the oracle runs is the rule / the genuineness the theorems speak about); after the first "
              "review: book_is_truth' / book_is_truth_admitted / connection_book_is_truth' (only non-stale / only admitted messages need be genuine; stale_junk_witness), "
              "no_false_alarm_conn (+ _no_error, _books: several instruments interleaved), futures_boundary_snapshot_witness; after the review of the sub-checks, for REST "
              "snapshots of LIMITED depth (the code asks for limit=100): truncated_snapshot_genuine_on (the venue's book cut to its best n levels per side is right on "
              "the prices coveredBy accepts), book_is_truth_on / book_is_truth_on_genuine (for every delivery processed to the first error: strictly ordered book reporting "
              "the sequencer's last id and holding, at every price the snapshot covers OR an admitted update wrote OR the venue changed since the snapshot id, exactly the "
              "venue's amount as of the reported sequence; an early stop is a terminal error), admittedBy_is_admitted (those admitted updates are admitted_chain's), "
              "connection_start_on / connection_book_is_truth_on / connSyncedOn_reading (the same for several interleaved instruments), truncated_snapshot_witness (at a "
              "price outside the three sets the book can differ silently: the full-depth statement is false with a depth-limited snapshot), and the full-depth theorems as "
              "the instance 'every price covered' (genuineSnapshot_is_on_everything, book_is_truth_is_the_full_depth_case, connSynced_is_on_everything). Unbounded "
              "in venue size, ids, delivery length, number of instruments. The model is tied to the code on every run through the real serde types, init, transform, "
              "validate_sequence, OrderBook::update and with_termination_on_error; the oracle recomputes the book from the simulated venue, never from the messages.")
LEVEL_NOTE = ("Trusted: Lean kernel; axioms propext/Classical.choice/Quot.sound only; the hand-written model (one definition per Rust function, parameterised by the rule "
              "set; hash map as association list; map_while as list function), tied by sampled correspondence (400 + 100 + 50 quick / 20k + 5k + 2.5k random + 13k small-scope exhaustive "
              "id sequences thorough); harness, drivers, orchestrator. Hypotheses: messages and snapshot are genuine in the stated sense (the venue's contract; "
              "trichotomy and admitted_chain need none); futures no_false_alarm needs the delivery to contain the message covering the snapshot id (the published "
              "rule rejects a start at pu = s); distinct instrument keys per connection; that the terminal error leads to re-initialisation and a Reconnecting notice "
              "is C12's statement. Snapshot depth: with the limit=100 snapshots of the real wiring the 'book = venue book' clause is decided PER PRICE LEVEL (covered by the "
              "snapshot, written by an admitted update, or changed by the venue since - book_is_truth_on), not for the whole book; the whole-book theorems need a "
              "snapshot that cuts nothing (<= 100 levels per side); the oracle follows this reading (`lv` lines for depth-limited cases, silent at the other prices). "
              "no_false_alarm is stated for one instrument (Local.run) and, since the first review, for interleaved instruments as no_false_alarm_conn. "
              "Definitional / bookkeeping (not results): genuineSnapshot_is_on_everything, connSynced_is_on_everything, connSyncedOn_reading, start_synced, the "
              "exDeep_book_at_2 evaluation. Exact rationals; u64 overflow and timestamps not modelled."
              " Additionally tied by translation: the sequencer step functions (new, is_first_update, validate_first_update, validate_next_update, validate_sequence of "
              "both Binance*OrderBookL2Sequencer impls, with DataError::InvalidSequence and the u64 fields of the update structs) are regenerated as Lean state-passing "
              "functions from the current source on every run (tools/rust2lean_sm.py) and proved equal to the model's for all states and updates "
              "(kernels_agree_with_source), so a change of such a function breaks a proof obligation directly; the translator's reading of its Rust subset "
              "(u64 as unbounded Nat) is trusted for that tie.")
SUBCHECKS = ["C06E"]
