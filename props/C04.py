N = {"quick": 300, "thorough": 4000}
EXHAUSTIVE = {"quick": False, "thorough": True}
RULE = ("random indexed collections built by the real IndexedInstrumentsBuilder: 1-4 of 5 exchange labels (label order != ExchangeIndex order), 0-5 spot instruments each "
        "(unequal counts), 4 asset internal names shared by all exchanges, exchange names of assets/instruments from numeric pools of 5/7 so that they collide across "
        "exchanges in nearly every case (12% of cases also collide inside one exchange = outside WF: model vs code only, the spec driver is silent), shuffled definition "
        "order, 20% with a repeated definition. Per case: the real generate_execution_instrument_map for all 5 labels (present, absent), a complete sweep of all six find_* "
        "on every index 0..len (own, foreign, out of range) and every name occurring anywhere plus an unknown one, each with its round trip; then 25/40 random ops: "
        "AccountEventIndexer::order_request (open/cancel), order_key, asset_balance, trade, Indexer::index (= account_event) on random nested events of all five kinds "
        "(snapshots with 0-3 balances / 0-3 instruments x 0-2 orders, all order states and API error variants; keys own/foreign/unknown at 0-40%), and requests through a real "
        "ExecutionManager::run with a recording stub ExecutionClient on a paused tokio runtime (what the client received, which indices the echoed response was attributed to, "
        "panic on a non-configured key); then 3/4 link selections per case for the END-TO-END ROUTE op: a fresh real ExecutionBuilder over the collection with add_live::<RStub<e>> (recording stub client "
        "whose EXCHANGE is e) for a generated SUBSET of the collection's exchanges in shuffled call order - every other selection leaves the exchange with ExchangeIndex(0) link-less while a later "
        "one is linked, the others link each exchange with 60%; 8% are spoiled by a repeated / absent exchange (builder must return Err) - then build() + init() on a paused current-thread tokio "
        "runtime and one open/cancel request per exchange index 0..len (own, link-less, out of range; 70% an instrument of that exchange, else any index 0..len) sent through "
        "the REAL Engine::send_request (engine/action/send_requests.rs) of an engine that owns the transmitter table the builder made; observed: the slots of the MultiExchangeTxMap, lookup ok/err, every call ANY client received tagged with the "
        "receiving client (exchange id, instrument name_exchange, cid, payload), which manager task panicked, the engine key of the echoed answer on the merged account channel; 8% of cases then overwrite 1-3 keys of the built collection through its derived Deserialize (duplicate / shifted / out-of-range keys, outside Indexed: model vs code only) and sweep again. Thorough additionally enumerates all 9 261 collections over 3 exchanges x (0,1,2 instruments named 1|2 over assets {1,2} in either "
        "base/quote order), full find_* sweep on 4 links and every (exchange index, instrument index) order_request on 3 links, plus route ops with the first exchange link-less and the later ones added "
        "in reverse order (every exchange index x every instrument index), all linked in reverse order and the middle one link-less (every exchange index x {own instrument, out of range}). Distinct by SHA-1 of the op lines; "
        "non-trivial when the implementation's observation blocks differ at least once. "
        "PAYLOADS (input-domain audit): every request / order / trade / balance op names ONE payload number p and the harness derives from it every field the indexer has to carry over, so that "
        "the whole domain of the Rust types occurs: side Buy / Sell, kind Limit / Market, all five TimeInForce values, quantity in {1, 0, 0.5, -1, 1e-8, 1e12, -2.5}, trade fees in {0, 0.1, -0.2, 2.5, -1} "
        "(rebates), time stamps from 3 s before to 3 s after t0, free balance = total for every fourth p and below it (negative for small p) otherwise, trade id != order id, `act 6 / 7 / 8` = "
        "CancelInFlight(Some) / OpenInFlight / CancelInFlight(None) instead of Open, `conn` = Timeout / ExchangeOffline(id) / Socket(text) by payload (cancel responses: cid) mod 3, the message string of an API "
        "error, and p = 0 on a cancel request = RequestCancel WITHOUT order id; every printer recomputes the fields from the p that comes back and prints `!payload` when one differs. "
        "INPUT-DOMAIN FAMILY (`d` cases, max(6, N/6) of them, own seed, names unique per exchange so that the spec speaks): in turn all FIVE exchanges; exchanges that own assets which are no instrument's base or quote "
        "(optional `E` section of the build op: settlement asset of a perpetual / future / option, quantity-unit asset of an InstrumentSpec); instruments whose base IS their quote and single-asset exchanges; one exchange "
        "with 30-60 instruments over 12 assets with multi-digit names of which one is a prefix of another (1, 10, 100, 11 ...); ordinary collections; all of it together - each with the full sweep, 20/30 random ops, "
        "2 link selections of route ops, and per link: cancel / open with payload 0 through oreq, mgr and route, order events and snapshots in the three non-Open active states, the three connectivity errors, "
        "boundary payloads for trade / bal, and indices at the top of usize on fexid / fan / fin / oreq / route. 3 committed corpus cases (corpus/C04: D1 payload classes, D2 assets outside every underlying, "
        "D3 five exchanges + base = quote + prefix names + usize::MAX indices). "
        "CONFIGURATION-SHAPE FAMILY (`cfg` cases, max(6, N/6) of them, own seed; op `sroute <n> <e>*n`): the same ExecutionBuilder set-up (random and input-domain collections, link selections as for `route`: "
        "first exchange link-less, shuffled call order, spoiled lists; plus all linked in reverse order, ONLY THE LAST exchange linked, NO exchange linked) but with live clients whose account is NOT empty at start-up: "
        "account_snapshot answers one balance per asset name and one instrument entry per instrument name the client was ASKED about (amount = 1000 x exchange id + position + 1) and both account_snapshot and "
        "account_stream record the name lists ExecutionManager::init handed them; observed per linked exchange: those two name lists and the indexed initial snapshot that arrived on the merged account channel "
        "(event exchange index, snapshot exchange index, asset index : amount, instrument indices). Before, every client of the builder had an empty account and ignored what it was asked about, and the "
        "route op dropped the snapshot events. 2 committed corpus cases (corpus/C04/cfg_1: three exchanges, first / all but last / none linked, duplicate and absent add; cfg_2: five exchanges with settlement / quantity-unit assets)")
ASSUMPTIONS = [
    "the indexed collection has key = position for exchanges, assets and instruments (what IndexedInstrumentsBuilder::build produces; property C11) - hypothesis Indexed",
    "exchange ids of the collection are pairwise distinct, and on the exchange of the link no two assets and no two instruments share a name_exchange - rest of hypothesis WF; "
    "at the excluded point the code's FnvHashMap<Name, Index> keeps the later index (modelled and compared with the code, not constrained by the spec)",
    "FnvIndexMap / FnvHashMap built by collect() behave as association lists with in-place upsert; hash-map iteration order is never observed",
    "ExchangeId, names and indices are natural numbers (names: decimal strings without leading zeros, so that string equality = numeric equality; case, empty and non-ASCII names are not driven); "
    "StrategyId+ClientOrderId are one number; all other fields of orders, trades, balances and request states are one opaque payload number p: the harness derives the real field values from p over the whole "
    "domain of their types (see RULE, PAYLOADS) and checks on every observation that the real code carried every one of them over unchanged; AccountEventIndexer::client_error (ClientError is not an account event) is not driven",
    "ExecutionManager::run is modelled only at its two translation sites (order_request before the client call, order_key on the response); scheduling, timeouts and the "
    "response channel are C03/C07",
    "routing: a transmitter is identified with the ExecutionManager owning its receiver (the exchange its client was constructed for + its ExecutionInstrumentMap); channel delivery "
    "(FIFO, receiver alive) is C03; the builder's FnvHashMap<ExchangeId, _> is an association list (insert / remove / lookup by key, iteration order never observed) and "
    "MultiExchangeTxMap's FnvIndexMap is built by in-place upsert in iteration order; hypothesis WFX for the routing theorems: key = position and pairwise distinct exchange ids "
    "(no condition on names); ExecutionBuilder::add_mock is not driven (it funnels into the same add_execution as add_live and is driven by the C11 check)",
]
SOURCE_FILES = ["barter-execution/src/map.rs", "barter-execution/src/indexer.rs", "barter/src/execution/manager.rs",
                "barter/src/execution/builder.rs", "barter/src/engine/execution_tx.rs", "barter/src/engine/action/send_requests.rs",
                "barter-instrument/src/index/mod.rs", "barter-instrument/src/index/error.rs", "barter-instrument/src/lib.rs", "barter-instrument/src/asset/mod.rs",
                "barter-instrument/src/instrument/mod.rs", "barter-execution/src/error.rs"]
PREBUILD = [["python3", "tools/rust2lean_sm.py", "--require", "exec_map"]]
CLAIM = True
TECHNIQUE = ("Lean 4: refinement of the per-exchange tables built by generate_execution_instrument_map (filter_map + collect into IndexMap/HashMap, modelled as upsert folds) to "
             "specification functions over the global collection, for arbitrary collections; structural refinement of every AccountEventIndexer function to a key-replacing "
             "traversal; the transmitter table of ExecutionBuilder::build (fold with removal + IndexMap collect) shown equal to 'one slot per exchange in index order, own link or empty' "
             "for any add order, composed with positional find and the manager translation into a refinement of the routing specification; correspondence with the real map, indexer, "
             "ExecutionManager and ExecutionBuilder + MultiExchangeTxMap::find")


def signature(ops, k, key, impl_line, spec_line):
    op = ops[k].split()[0] if k < len(ops) else "?"
    return f"clause={op}/{key}"


LEVEL_TEXT = ("Proof. lean/BarterModel/Props/C04.lean proves for EVERY indexed collection (any number of exchanges, assets, instruments, names shared across exchanges at will) "
              "and every exchange ex of it, with m the map generate_execution_instrument_map builds: index->name->index is the identity on the instruments / assets of ex "
              "(instrument_index_name_index, asset_index_name_index); indices of other exchanges or out of range are rejected (instrument/asset_foreign_rejected, needs only "
              "key = position) and whatever translates belongs to ex (instrument/asset_name_sound); name->index->name is the identity and names no entry of ex carries are "
              "rejected (instrument/asset_name_index_name, *_unknown_name_rejected); only the link's own exchange index/id translate (exchange_translation); order_request "
              "addresses the client with the exchange id of ex and the name_exchange of exactly the requested instrument with cid/state untouched, and sends nothing otherwise "
              "(request_addressed, request_refines_spec); account_event maps every snapshot/balance/order/cancel-response/trade, at any nesting depth and list length, to the "
              "indices its names denote on ex or rejects it (account_event_refines_spec, trade_applied, balance_applied, order_key_applied); an echoed client response is "
              "attributed to the original engine indices (manager_round_trip); a link exists exactly for the exchanges of the collection (link_exists_iff). END TO END (model of "
              "ExecutionBuilder::add_execution/build, MultiExchangeTxMap::find, send_request, manager), for every collection with key = position and distinct exchange ids, every subset of its "
              "exchanges with an execution added in ANY call order: the builder succeeds and never trips its assert (build_succeeds, build_never_panics); the table has one slot per exchange "
              "in exchange-index order and find(x) yields exactly the own manager of the exchange at index x iff that exchange was added (tx_table); a request for instrument i of exchange "
              "index x reaches exactly the client of the exchange at x, addressed with that exchange's id and i's name_exchange (route_reaches_own_client); with no link at x or x out of range "
              "the lookup errs and no client is called (route_no_link_fails); an instrument of another exchange is refused by the own manager and no client is called "
              "(route_foreign_instrument_rejected); conversely whatever any client receives was addressed to it (route_delivered_sound); the echoed answer comes back under the request's own "
              "engine key (route_round_trip); routing equals the specification function the oracle runs (route_refines_spec). All full strength, "
              "no size bounds. The unit tests only cover hand-picked single-exchange maps.")
LEVEL_NOTE = ("Trusted: Lean kernel; axioms propext/Classical.choice/Quot.sound; the hand-written model (Model/ExecMap.lean) tied to the code by sampled correspondence against the real "
              "generate_execution_instrument_map, ExecutionInstrumentMap::find_*, AccountEventIndexer, ExecutionManager::run and ExecutionBuilder::add_live/build/init + MultiExchangeTxMap::find (300 quick / 4 000 random + 9 261 exhaustive small "
              "collections thorough); harness and drivers. Hypothesis WF (key = position, distinct exchange ids, per-exchange injective name_exchange) is decidable, holds for "
              "every builder output with per-exchange unique exchange names, and is shown satisfiable and necessary by examples. The index builder itself is C11; the manager's "
              "async machinery is C03/C07. "
              "ExecutionInstrumentMap::{new, find_* (6), exchange_assets, exchange_instruments}, generate_execution_instrument_map and AccountEventIndexer::{order_key, order_request, asset_balance, trade} are additionally "
              "regenerated from the source by tools/rust2lean_sm.py (Generated/Machines4.lean, group exec_map; iterator chains read as list functions, collect into IndexMap = insert in order with the value replaced in place, "
              "collect into FnvHashMap = the same finite map) and proved, for all collections / maps / keys / names and with no hypothesis, to be the model's EMap.new / genMap / EMap.find* / orderKey / orderRequest / assetBalance / trade "
              "up to an explicit relation (forward tables equal position by position, reverse hash tables equal as finite maps, error messages not modelled): execution_map_agrees_with_source; the translator, its prelude and the stated "
              "meaning of the iterator vocabulary (Lemmas/KernelsAgree/IterVocab.lean proves what it amounts to) are trusted for that tie. Not translated: the rest of indexer.rs (account_event, snapshot, order_snapshot, "
              "order_response_cancel, api_error, order_error) and the manager / builder call sites.")
SUBCHECKS = ["C04M"]
