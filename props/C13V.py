N = {"quick": 500, "thorough": 12000}
EXHAUSTIVE = {"quick": False, "thorough": True}
RULE = ("three fixed cases on every run: `tables` (the WHOLE tables: exchange_supports_instrument_kind over 42 exchanges x 4 instrument kind "
        "classes, exchange_supports_instrument_kind_sub_kind over 42 x 4 x 6, Connector::ID of the 15 connector types, the 15 x 6 table of "
        "`impl StreamSelector` detected per concrete type pair at compile time, the 21 arms + their txs family + the fall-through arm of the match "
        "in DynamicStreams::init READ FROM THE SOURCE TEXT, SubKind Display / SubscriptionKind::as_str / derived order, init_market_stream on an "
        "empty list), `vstat-all` (the static Validator on all 15 connectors x 6 kind types x 4 instrument kinds) and `vdyn-all` (the dynamic "
        "Validator on all 42 x 6 x 4 subscriptions), then random cases of six kinds: 40 % batches (0-3 batches of 0-8 subscriptions, 12 % / "
        "thorough 25 % of up to 60 over 40 base assets so that validated batches exceed 20 elements; subscriptions drawn from the real support "
        "table with probability 100/100/97/85 %, else arbitrary over 19 exchanges (15 connectors + Other, Mock, Mexc, Deribit) x 6 sub kinds x "
        "spot / perpetual / 3 future expiries / 18 option contracts; 15 % verbatim repeats) through validate_subscriptions, "
        "display_subscriptions_without_exchange, Display and `init` = real validate_batches + replicated Channels::try_from + replicated "
        "sort_unstable_by_key/chunk_by + arm lookup, and the real DynamicStreams::init whenever it returns before the network (validation error; "
        "no subscription at all), then the same batches shuffled with repeats (order independence); 10 % single table lookups; 20 % an "
        "IndexedInstruments of 0-6 (10) definitions over 1-4 exchanges, 6 names, 4 assets, then generate_indexed_market_data_subscription_batches "
        "with 0-3 kinds and 1-3 index_market_data_subscription_batches calls (80 % subscriptions of defined instruments, else arbitrary: unknown "
        "asset / unknown instrument); 10 % a hand-built DynamicStreams (0-3 exchanges per family, each stream carrying a marker item) under 1-8 "
        "select_* / select_all_* / select_all calls; 10 % StreamBuilder / MultiStreamBuilder: 1-3 builders of the 4 routed kinds, 0-3 subscribe calls "
        "each over the 15 connectors (15 % without a StreamSelector for the kind: must not compile, reported `nosel`), EACH call failing before the "
        "network with probability 30 % (an instrument kind the connector rejects, or no subscription) so that the first failing future is the first, a "
        "later one or none; 4 %: a builder with 31-33 calls (try_join_all leaves its small mode above 30 futures); then the REAL init is awaited and "
        "what its first poll returns is compared (Ok | Err + Display | pending on the network); 10 % Map::from_iter with duplicate keys, find, "
        "find_mut. thorough additionally enumerates every list of <= 3 subscriptions over a pool of 6 (valid and invalid, two keys, an unrouted kind) "
        "as one batch and split into two (343 cases). corpus/C13V/hand.ops (always run first): the inputs of the sub-check review — a later future failing "
        "behind one that went to the network (StreamBuilder and MultiStreamBuilder), the 30 / 31 futures boundary of try_join_all, asset numbers from 1000 on "
        "(names order as strings); corpus/C13V/domain.ops (input-domain audit): exchange ids outside the generators' pool of 19 inside batches, five batches in one init with one key in "
        "several of them, expiry 0 / 1 ms, strikes 0 / 1, Okx under every instrument kind in one group next to Gateio futures / options. A case is distinct by the SHA-1 of its op lines and non-trivial when two of its ops produce "
        "different observations")
ASSUMPTIONS = [
    "the network is outside the model: a connection init_market_stream would open is a value (exchange, kind, channel family, instruments). "
    "DynamicStreams::init is driven for real only on inputs that return before any connection is attempted; for every other input the harness "
    "REPLICATES the code that is inlined in the async init: `batch.sort_unstable_by_key(|sub| (sub.exchange, sub.kind))` verbatim followed by "
    "`slice::chunk_by` on equal keys (instead of itertools' `chunk_by`: both yield the maximal runs of equal keys; itertools is not a dependency of "
    "the harness) on the real Subscription values returned by the real validate_batches, and the loop of the private Channels::try_from on Vecs; the "
    "arms of the match, the txs family each forwards to and the fall-through arm are parsed from the text of dynamic/mod.rs",
    "slice::sort_unstable_by_key is a PARAMETER of the model constrained only by its documentation (`UnstableSort`: an ordered permutation). The "
    "driver instantiates it with the stable merge sort; the pinned toolchain's implementation agrees with that on at most 20 elements (insertion "
    "sort) and does reorder equal keys from 21 elements on (probed: 17 772 of 20 000 random validated batches of up to 200 elements), so for "
    "validated batches longer than 20 the harness prints each group's instruments sorted (and a `#` note when the real order differed); theorems "
    "that need the order inside a group say `stableSort` explicitly, all others hold for every `UnstableSort`",
    "itertools `sorted_unstable_by_key` in generate_indexed_market_data_subscription_batches: same parameter; IndexedInstruments built by the real "
    "builder are already sorted by exchange (C11), on which the real sort is the identity",
    "try_join_all (futures-util 0.3.34, a dependency: read, not verified) is modelled by what its FIRST poll returns, given what each future does "
    "when first polled (fails at once | Ok at once | pending on its connection attempt): with at most 30 futures (`join_all::SMALL`) every future is "
    "polled once in order and the first Err OF THE PASS is returned, also behind futures that are pending (`joinSmall`); above 30 the futures go to "
    "FuturesOrdered + try_collect, which consumes results in index order, so the first future that is not Ok at once decides (`joinBig`). Both modes "
    "and the 30 / 31 boundary were run on the real StreamBuilder::init (corpus/C13V/hand.ops). StreamBuilder::init / MultiStreamBuilder::init are "
    "really awaited on every sbinit / minit; compared is the result of the first poll, taken while every name lookup is held back (the runtime has one "
    "blocking thread, occupied by a gate task until the first poll has returned — the gate of C13D), so the compared line does not depend on whether a "
    "network exists: Ready(Ok) = `res ok`, Ready(Err) = `res err <Display>`, Pending = `res network`. The future is then awaited to its end (offline: "
    "Err(Socket(\"WebSocket error: ..\")) within a millisecond; guard 5 s) and the ending is printed as a `#` comment, not compared: what the network "
    "does is outside the model",
    "instruments are MarketDataInstrument with asset names a000, a001, ..., a999, a1000, ... (`format!(\"a{n:03}\")`); the derived Ord compares the "
    "NAMES, and so does the model (`strKey`: code points, 0-terminated): numeric order below 1000 (asset_names_below_1000_order_as_numbers — the "
    "generators stay below 40), string order from 1000 on (a1000 < a999: asset_name_1000_sorts_before_999, corpus case "
    "asset-names-order-as-strings); name normalisation is C11N's; option "
    "strikes are integer Decimals (Decimal equality is numeric: 50000 and 50000.0 would be one instrument for `dedup`), expiries whole milliseconds "
    "from 2025; the derived Ord of Subscription / MarketDataInstrument / Keyed / MarketInstrumentData is modelled by sort keys (Model/Index.lean "
    "convention); the generic theorems assume only `InstOps.Lawful` (injective sort key, no key a proper prefix of another — under which the key order IS "
    "the tuple order: sort_key_is_tuple_order), shown for the three concrete instrument types",
    "hash-map contents (channel owners, Map) are compared sorted; VecMap / SelectAll order is not observable (markers compared sorted)",
    "IndexedInstruments is `Index.build` of C11 (exchange = declaration position, names = numbers); definitions use the asset's internal name as "
    "its exchange name, so (exchange, internal name) determines the asset: the oracle `specIndexable` (a subscription can be indexed iff some "
    "indexed instrument of that exchange has that kind and underlying assets with those internal names) is checked on the implementation's "
    "traces, not proved equivalent to the first-match model",
    "the spec (oracle) is the README table `Supported Exchange Subscriptions` plus (BinanceFuturesUsd, Perpetual, Liquidations) — a full "
    "Liquidations implementation exists, the README row omits it; on the three subscriptions where the static Validator contradicts the table "
    "(Spot on GateioFuturesUsd / GateioFuturesBtc / GateioOptions) the spec is silent and the theorems state the exact list "
    "(static_contradicts_dynamic_iff, static_contradicts_documentation_iff); the spec is silent on the 27 exchange ids without a connector for "
    "exchange_supports_instrument_kind (it answers `true` for Spot there: no_connector_supports_spot)",
    "serde (Deserialize of Subscription / SubKind) is not modelled; tracing output is not observed",
]
SOURCE_FILES = ["barter-data/src/subscription/mod.rs", "barter-data/src/streams/builder/dynamic/mod.rs",
                "barter-data/src/streams/builder/dynamic/indexed.rs", "barter-data/src/streams/builder/mod.rs",
                "barter-data/src/streams/builder/multi.rs", "barter-data/src/streams/consumer.rs", "barter-data/src/instrument.rs",
                "barter-data/src/error.rs", "barter-data/src/subscription/trade.rs", "barter-data/src/subscription/book.rs",
                "barter-data/src/subscription/liquidation.rs", "barter-data/src/subscription/candle.rs",
                "barter-data/src/exchange/mod.rs", "barter-data/src/exchange/binance/mod.rs", "barter-data/src/exchange/binance/spot/mod.rs",
                "barter-data/src/exchange/binance/futures/mod.rs", "barter-data/src/exchange/bitfinex/mod.rs",
                "barter-data/src/exchange/bitmex/mod.rs", "barter-data/src/exchange/bybit/mod.rs", "barter-data/src/exchange/coinbase/mod.rs",
                "barter-data/src/exchange/gateio/spot/mod.rs", "barter-data/src/exchange/gateio/future/mod.rs",
                "barter-data/src/exchange/gateio/perpetual/mod.rs", "barter-data/src/exchange/gateio/option/mod.rs",
                "barter-data/src/exchange/kraken/mod.rs", "barter-data/src/exchange/okx/mod.rs", "barter-data/README.md"]
TRUSTED = [
    "C13V: the compile-time detection of `impl StreamSelector` (inherent associated constant shadowing a blanket trait constant, per concrete type "
    "pair); the textual reading of the match arms of DynamicStreams::init; the replicated grouping / channel loops of the harness (see assumptions)",
]


def signature(ops, k, key, impl_line, spec_line):
    """clause = observation key, class = the op kind"""
    try:
        op = ops[k].split()[0]
        return f"clause={key}/{op}"
    except Exception:
        return f"clause={key}"


CLAIM = False
TECHNIQUE = ("Lean 4: the finite support tables decided by the kernel over the WHOLE table (42 x 4 x 6 entries, 15 x 6 selectors, 21 arms) with the "
             "exact lists of disagreements as theorems; validation, grouping and init as list programs with `sort_unstable_by_key` a parameter "
             "constrained by its documentation, proved against a set-level specification (sorted-distinct keys, filter of the batch) by induction and "
             "a stability argument for the merge sort; correspondence with the real functions")
LEVEL_TEXT = ("Sub-check of C13. Lean theorems (lean/BarterModel/Props/C13V.lean), for all inputs unless they name a table entry. TABLES (kernel decide over the "
              "whole table): the dynamic table = the README table plus exactly (BinanceFuturesUsd, Perpetual, Liquidations); every (exchange, sub kind) "
              "that validates for some instrument kind has an arm in DynamicStreams::init and every arm is reached by some validating instrument kind "
              "(validated_pair_has_arm, arm_is_reachable), validated kinds are routed (no UnsupportedSubKind), the arms are the 21 pairs of C13 and "
              "Connectors.supports is this table; `impl StreamSelector<_, K> for E` exists iff the arm (E::ID, K) does; the static and the dynamic "
              "Validator disagree on exactly three subscriptions (Spot on GateioFuturesUsd / GateioFuturesBtc / GateioOptions: accepted statically, "
              "rejected dynamically; static_contradicts_dynamic_iff, static_accepts_what_dynamic_rejects), exchange_supports_instrument_kind answers "
              "true for Spot on all 27 ids without a connector. BATCHES: a batch is accepted iff every element is; the error is the first rejected "
              "subscription of the first rejected batch in caller order (init_reports_first_rejected, an iff); the accepted batch is the ascending "
              "duplicate-free set of its subscriptions, independent of order and repetition, validation idempotent. GROUPING (for EVERY function "
              "satisfying the documentation of sort_unstable_by_key): the groups partition the batch, are non-empty, carry one key each, their keys are "
              "the distinct (exchange, kind) pairs ascending without repetition, every subscription lies in exactly one group, each group is a "
              "permutation of the batch filtered by its key; for the stable sort the order inside a group is the batch's. INIT (the MODEL of DynamicStreams::init "
              "UP TO THE NETWORK: `.ok` means validation, channel creation and dispatch passed and lists the connections init_market_stream would be asked "
              "to open — it is not the real init returning Ok, which also needs every connection to succeed): init_ok_iff_all_supported = this pre-network "
              "`.ok` iff all subscriptions are supported; the only reachable error is the validation error (Unsupported, UnsupportedSubKind, SubscriptionsEmpty and "
              "the unwrap panic are dead); connections = per batch, per group (init_connections), = the set-level specification for the stable sort "
              "(init_refines_spec); an exchange owns a channel of a family iff a subscription is routed there, iff a connection forwards there "
              "(channel_iff_connection); no connection holds an instrument twice; batches never share a connection and the number of connections per "
              "key is the number of batches holding it; no batch / an empty batch open no connection. Also: select_* / select_all refine `present iff "
              "built with it and never taken since` for duplicate-free channel tables (selects_refine_spec; the hypothesis is discharged for every table a "
              "successful init produces: init_channel_table_nodup, selects_refine_spec_after_init; selects_need_nodup_witness shows it is needed by the "
              "model's list representation); StreamBuilder / MultiStreamBuilder channel sets and the pre-network outcome of init = the first poll of "
              "try_join_all, CORRECTED after the sub-check review: with at most 30 futures the first future in order that FAILS WHEN FIRST POLLED decides, "
              "also behind calls that went to the network (builder_init_first_pass_error, an iff; later_synchronous_failure_decides; "
              "later_failure_witness = the review's input, run on the real init), the network only if none fails (builder_init_first_pass_network); above "
              "30 the first call alone decides (builder_init_big; try_join_all_boundary_witness); the same one level up (multi_init_first_pass_error, "
              "multi_init_ok_iff, multi_later_failure_witness); builder_init_decided_by_first_call / multi_init_decided_by_first_nonempty_builder keep their "
              "names with the corrected statement (IF the first call / first non-empty builder fails before the network it decides). ORDER: the sort keys "
              "render the derived Ord (sort_key_is_tuple_order); asset names order as numbers below 1000 and as strings from 1000 on "
              "(asset_names_below_1000_order_as_numbers, asset_name_1000_sorts_before_999). generate_indexed_market_data_subscription_batches covers every instrument x kind combination once "
              "and validates none, = one batch per exchange in index order for the stable sort; index_market_data_subscription_batches only attaches "
              "keys (first match), with the two error cases; Map::from_iter / find / find_mut; display_subscriptions_without_exchange ignores the "
              "exchange. The model is tied to the code by running the same ops through the real functions on every run.")
LEVEL_NOTE = ("Trusted: Lean kernel (axioms propext/Classical.choice/Quot.sound only); the hand-written model tied by sampled correspondence (the whole tables on "
              "every run; 500 quick / 12 000 random + 343 exhaustive cases thorough); harness and driver; the part of DynamicStreams::init behind the network "
              "is replicated in the harness, not driven (grouping expression, Channels loop) or read from the source text (match arms). ORACLE: the spec "
              "mode answers from the README table (`docTable`) and from functions written separately from the model (the set of a batch by insertion under a "
              "field-by-field comparison of exchange / names as strings / kind, the groups as filters, try_join_all over documented call outcomes, "
              "`specPresent`, `specGenerate`, `specIndexable`): keys `iksk*`, `sikk`, `res` of vdyn / vsubs / init / sbinit / minit, `vstat`, `subs`, `grp`, `chan`, "
              "`nb`, `gen`, `fam` / `r` of ds / sel / selall / all, `size` / `r` of map / find / findmut. CORRESPONDENCE-ONLY (the spec is silent, the documentation "
              "has no second source; a change there is caught as a model disagreement, not as an oracle failure): `arms` / `fallback`, `kind*` / `ord`, `out` of "
              "disp / dsub, `n` / `ins` of idx, the attached key in the `b` lines of index, every `msg`, the `real ..` line of init, `ids` of static, `res` of "
              "empty, `ik<e>` for the 27 exchange ids without a connector and the three Gateio rows where "
              "the static validate contradicts the table. Definitional / bookkeeping theorems (not results): first_poll_of_call, builder_tracks_calls' "
              "futures clause, multi_channels_are_the_union's third conjunct, display_ignores_exchange, subkind_table.")
