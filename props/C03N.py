N = {"quick": 400, "thorough": 6000}
EXHAUSTIVE = {"quick": False, "thorough": True}
RULE = ("random op sequences (2-16 / 2-30 ops) over three registers - a NoneOneOrMany<i64>, a OneOrMany<i64>, a ProcessAudit - plus stateless action-output and engine ops, "
        "all executed by the real code: constructors (literal variants through serde Deserialize, From<Vec>, FromIterator, From<Option>, From<T>, Default), extend (by a Vec and by another "
        "collection), map, in-place mutation through &mut IntoIterator / BorrowMut, contains, ==, cmp, into_option / From<NoneOneOrMany>, every ProcessAudit / EngineAudit constructor, "
        "add_output, add_errors, with_process_and_err, Terminal; SendRequestsOutput / SendCancelsAndOpensOutput / GenerateAlgoOrdersOutput / ActionOutput built from scripted per-request "
        "results (sent / recoverable / unrecoverable) with is_empty and unrecoverable_errors; `eng` = one call of the real Engine::process (exchange 0 healthy, exchanges 1-2 with a closed "
        "execution link; ten events: Shutdown, the commands SendCancelRequests / SendOpenRequests with scripted requests, CancelOrders over open orders the engine learnt from order "
        "snapshots, ClosePositions with a scripted ClosePositionsStrategy returning cancels AND opens, trading on / off, an account balance item, market / account reconnecting "
        "notices; scripted algo cancels / algo opens, some refused by the risk manager). Items from {0..3}, lengths biased to 0/1/2. Observed after every op: variant, len, "
        "is_empty/is_none/is_one/is_many, into_vec, iter, into_iter, as_ref (= borrow = &into_iter), sorted items, serde_json text (and round trip), into_option; audits: outputs, errors, "
        "terminal. Thorough additionally enumerates: every start value (every variant, lists over {1,2} of length <= 3) x every extension list of length <= 3 for both types; every "
        "vector of length <= 3 through all four From/FromIterator impls; every (initial errors, added errors) pair of lists of length <= 3 for add_errors; every pattern of "
        "sent/recoverable/unrecoverable results of length <= 3 on the cancel side x the open side (1600 pairs) for SendCancelsAndOpensOutput / GenerateAlgoOrdersOutput; every pattern of "
        "healthy / dead exchanges for <= 2 cancels x <= 3 opens (520 pairs) through one real Engine::process each, once as the requests of a ClosePositions command and once as the "
        "algo requests of an account-item tick. "
        "Plus a separately seeded input-domain family (one `d` case per eight random ones): items over the whole i64 domain (negative, i64::MIN / MAX; shifts that leave i64 are bad-op on both sides), lists of 5-12 items, "
        "`eng` ops with 4-6 requests per list. "
        "Plus a separately seeded configuration-shape family (one `cfg` case of 1-3 `engl` ops per eight random ones; corpus/C03N/cfg_links.ops holds fixed instances; thorough additionally every one of the 27 link patterns x "
        "6 insertion orders with a ClosePositions command, an algo tick and a cancel command addressing all three exchanges): `engl <links> <order>` is `eng` on an engine assembled differently - each of the three links "
        "healthy / closed / missing (`None` slot: the failure is an IndexError, not ExecutionChannelTerminated; also BEFORE a linked exchange, all healthy, none healthy), exchanges added in any order. "
        "Distinct by SHA-1 of the op lines; non-trivial when the implementation's observation block changes at least once")
ASSUMPTIONS = [
    "a Rust iterator argument is a finite list; Vec::push / Vec::extend are append; elements are i64 (the types are generic, the code never inspects an element except through ==)",
    "serde: the derived externally-tagged shape is taken from serde_json's output for i64 elements (\"None\", {\"One\":x}, {\"Many\":[..]}); Deserialize is the literal constructor (no normalisation)",
    "examined boundary B1 (order): X::One(x).extend(it) with it yielding >= 2 items returns Many(items of it ++ [x]) - the single item of self ends up LAST "
    "(none_one_or_many.rs:41-44, one_or_many.rs:36-39: `right.push(left)`), whereas every other arm keeps `self, then other`. Proved exactly (nom_extend_order_iff); the abstract spec "
    "(extend = append) leaves the ORDER unconstrained in exactly that case (Spec.reorders: one item extended by >= 2 items not all equal to it; the order counts as determined "
    "again once all items are equal) and still constrains multiset, length, membership, variant. Reachable in the engine in TWO places: "
    "SendCancelsAndOpensOutput::unrecoverable_errors with exactly 1 unrecoverable cancel error and >= 2 unrecoverable open errors (not all equal to it) lists the open errors first - "
    "in the generation stage (witness: `eng on mkt / 1:1 / 2:2 2:3` -> audit errors [ex2, ex2, ex1]) and on the command path of Command::ClosePositions, whatever the trading "
    "state and the algo requests are (witness: `eng off cmdx 1:1 / 2:2 2:3 / /` -> [ex2, ex2, ex1]; ActionOutput::ClosePositions(r) => r.unrecoverable_errors(), action/mod.rs:44)",
    "examined boundary B2 (representation): the abstract reading is `variant = f(number of items)`. It holds for everything the NoneOneOrMany API builds (nom_reachable_canonical) but the "
    "variants are public and Deserialize does not normalise: Many(vec![]) has len() == 0 and is_empty() == false, One(x) != Many(vec![x]). The spec constrains variant / is_empty / == "
    "only for values whose representation is determined",
    "examined boundary B3 (OneOrMany is not closed): OneOrMany::from_iter(empty) = Many(vec![]) (len 0, used by InstrumentFilter::exchanges / instruments / underlyings and AssetFilter::exchanges "
    "on an empty iterator) although From<Vec> panics on the empty vector; One(x).extend(empty) = Many(vec![x]) != One(x). The spec treats these as outside the domain (variant unconstrained)",
    "as of /repo a7785e6 the algo arm of Engine::process is process_audit.add_output(output).add_errors(unrecoverable): the AlgoOrders output stays in the audit next to the errors; "
    "the spec now also constrains the `eng` outputs (first-stage output, then `algo` whenever generation ran and the strategy generated anything - sent, failed or refused)",
    "the `eng` op covers the audit assembly of Engine::process (engine/mod.rs:146-186) for a TEN-event alphabet: Shutdown, all four commands (SendCancelRequests, SendOpenRequests, "
    "CancelOrders, ClosePositions), trading-state updates, an account balance item (op name `mkt` for historical reasons - it is not a market event), market / account reconnecting "
    "notices; sends succeed on a healthy link and fail unrecoverably on a closed one (unbounded channels have no recoverable failure; Unhealthy and missing links are not in this "
    "sub-check - parent C03 has them). NOT in the alphabet: account items that exit a position (first-stage output PositionExit) and market items; both take the `update` path of "
    "the model with another first-stage output (the record-level constructors with_account_update / with_market_update are covered by the `a.acc` / `a.mkt` ops)",
    "Command::CancelOrders: the cancel requests are derived by the engine from the orders it tracks; the op lists those orders (fed to the real engine as order snapshots) sorted by "
    "exchange and pairwise distinct (otherwise bad-op on both sides) - the engine walks the instruments in index order and the orders of one instrument in hash-map order, which the "
    "audit cannot show (all of them name the same exchange); WHICH orders a filter selects is C19's subject. Command::ClosePositions: the requests are what the "
    "ClosePositionsStrategy returns (user code): scripted, in the model an input (theorems quantify over every pair of request lists)",
    "`n.map k` / `n.mut k` / `o.map k` / `o.mut k` use the harness's own closure `|x| x + k`; an op whose sum would leave i64 is answered `bad-op` by harness, model and spec alike "
    "(it used to panic inside the harness closure)",
]
SOURCE_FILES = ["barter-integration/src/collection/none_one_or_many.rs", "barter-integration/src/collection/one_or_many.rs",
                "barter/src/engine/audit/mod.rs", "barter/src/engine/action/mod.rs", "barter/src/engine/action/send_requests.rs",
                "barter/src/engine/action/generate_algo_orders.rs", "barter/src/engine/mod.rs"]


def signature(ops, k, key, impl_line, spec_line):
    op = ops[k].split()[0] if k < len(ops) else "?"
    return f"clause={op}/{key}"


CLAIM = False
TECHNIQUE = ("Lean 4: concrete model function-for-function, abstraction to List (`asRef`), algebraic laws by case analysis on the variants, exact characterisation of where a law stops "
             "(iff-theorems), reachability invariant by induction over API terms, refinement of register-machine runs to list programs by induction over op histories; correspondence "
             "of the model with the real code incl. serde and one real Engine::process per `eng` op")
LEVEL_TEXT = ("Proof + correspondence. lean/BarterModel/Props/C03N.lean proves for all values, items and histories: From<Vec> / FromIterator / "
              "From<Option> give the items in order in canonical form with variant = f(length) (nom_from_iter, nom_from_option, oom_from_iter, oom_from_vec); from_iter . into_iter = id exactly on "
              "canonical values (nom_from_iter_into_iter); == is sequence equality exactly on canonical values (nom_eq_iff_of_canonical, nom_eq_distinguishes_representations); len / contains / map "
              "are the list operations; is_empty <=> len = 0 for every value except Many([]) (nom_is_empty, nom_is_empty_iff_exact, nom_is_empty_many_nil); extend always gives the right multiset / length / membership "
              "and keeps canonical form (nom_extend_perm, nom_extend_canonical) and keeps the order iff not (self = One(x), other has >= 2 items not all x) (nom_extend_order_iff, "
              "nom_extend_one_many_reversed, nom_extend_all_same); every API-built NoneOneOrMany is canonical (nom_reachable_canonical) while OneOrMany::from_iter([]) = Many([]) and One(x).extend([]) = Many([x]) "
              "(oom_from_iter, oom_extend_canonical_iff); derived Ord is consistent with Eq, compares the variant first whatever the payloads (nom_cmp_variant_first, oom_cmp_variant_first) and is on "
              "canonical values the order `length class, then items lexicographically` (nom_cmp_of_canonical). Audit records: add_output appends in order for every history, add_errors is "
              "extend, terminal <=> event terminal or an error present for every record whose errors are not the literal Many([]) (audit_terminal_iff, audit_terminal_many_nil), all API-built records are "
              "canonical; register-machine runs refine list programs (runN/O/A_refines, _exact; a panicking OneOrMany op changes nothing, runO_panicking_step). Action outputs: "
              "unrecoverable_errors are the unrecoverable failures in request order, for cancels-and-opens a permutation of cancels ++ opens that is in order iff not (1 cancel error k, >= 2 open errors not all k) "
              "(cancels_and_opens_unrecoverable, action_unrecoverable); in Engine::process add_errors only meets an empty error collection (last conjunct of engine_assemble). One Engine::process, for every link table "
              "healthy/terminated, trading state, strategy output and every event of a TEN-event alphabet (Shutdown; the commands SendCancelRequests, SendOpenRequests, CancelOrders, ClosePositions; trading on/off; an "
              "account balance item; market / account reconnecting notices): the audit's outputs are exactly the first stage's output followed by the AlgoOrders output whenever anything was generated - also when a send "
              "failed unrecoverably, nothing generated is dropped - and its error collection is, value and representation, from_iter(cancel-side failures).extend(open-side failures) of the stage that failed "
              "(engine_audit_closed_form); hence a permutation of the failed sends, terminal iff Shutdown or a failure, and in request order IFF the failed stage does not have exactly one cancel-side failure and two or "
              "more open-side failures not all equal to it (engine_audit_errors, audit_reorders_iff) - a shape met by the generation stage (AlgoBoundary: necessary, not sufficient, algo_boundary_is_not_sufficient) and on the "
              "command path of ClosePositions independently of the algo requests (close_positions_command_order, witness close_positions_reorders_outside_algo_boundary). "
              "Definitional / bookkeeping statements, not results: nom_readings_agree / oom_readings_agree (one asRef in the model), the first two conjuncts of engine_assemble, actionErrors, the middle conjunct of runO_refines.")
LEVEL_NOTE = ("Trusted: Lean kernel; axioms propext/Classical.choice/Quot.sound only; the hand-written model tied to the code by sampled + small-scope exhaustive correspondence "
              "(400 quick / 6000 random + 2885 enumerated cases thorough, 520 of them one or two real Engine::process calls each); harness and driver. Boundaries B1-B3 are reported, not repaired. "
              "Scope of the engine-level theorems: the ten events of EngEv; account items that exit a position, market items, Unhealthy / missing links are not in it (declared in ASSUMPTIONS). "
              "The requests of CancelOrders / ClosePositions are inputs of the model (which orders a filter selects: C19). "
              "Spec driver vs theorems: the spec prints the exact order (`errors`, `unrec`, `vec`, ...) exactly where the theorems prove `self, then other` is kept (Spec.reorders false) or all items are equal, "
              "and `ord` / `oord` where both values are canonical; it stays silent (weaker than the model) on order after a reversing step until the value is replaced or all items are equal, on a one-item value "
              "written down as Many([x]) extended by >= 2 items (order in fact kept), and on == / Ord when a representation is not canonical.")
