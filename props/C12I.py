N = {"quick": 300, "thorough": 4000}
EXHAUSTIVE = {"quick": False, "thorough": True}
RULE = ("cases = committed corpus + seeded generator of harness/src/bin/c12i.rs. Every case configures a scripted exchange (harness-local Connector + StreamSelector whose "
        "Stream type is a harness-local MarketStream; two connector ids: mock / simulated), a back-off policy (40 %: the repository's STREAM_RECONNECTION_POLICY constant read "
        "from the source, otherwise initial {0,1,10,100,125,700} x multiplier {0,1,2,3,10} x max {0,5,500,1000,60000} incl. initial > max), how the returned stream is consumed "
        "(as returned | with .with_error_handler appended), the number of subscriptions (0 in 6 %: no stream, no init call; else 1-4) and a script of 1-8 / 1-12 MarketStream::init "
        "outcomes, each `fail` or `ok` with 0-5 elements from {Ok(event), Err(v) for EVERY variant v of DataError — Socket, InitialSnapshotMissing, InitialSnapshotInvalid, Index, "
        "SubscriptionsEmpty, UnsupportedSubKind, Unsupported (non-terminal) and InvalidSequence = the only terminal error —, latency} over 4 payloads, ending or staying open; fail rate 20/50/75 %. EVERY `conn` op re-runs the REAL init_market_stream::<Scripted, "
        "MarketDataInstrument, PublicTrades>(policy, subscriptions) on the script so far on a fresh paused-clock current-thread runtime and prints every init call (virtual time, "
        "number of subscriptions it was handed), every delivered item / error / notice (with its origin) / handler call with its tokio::time::Instant stamp, the number of such "
        "lines and the final status. Thorough additionally enumerates every script of <= 4 connections over a 9-symbol alphabet under the default policy (events) and a policy "
        "with initial > max (handler): 2 x 7 380 scripts. "
        "Input-domain families (separately seeded, appended after the random cases; 50 quick / N/10 thorough, one fifth each; exchange, mode and 1-300 "
        "subscriptions drawn): dfail - 10-36 / 10-70 consecutive init failures between two successes, mostly under STREAM_RECONNECTION_POLICY (cap reached after ten, held, reset), "
        "then more failures; dlong - scripts of 50-60 / 50-90 init outcomes; dbig - initial / max in {2^32-1, 2^32, 2^32+1, 5e9, 2^33} with multiplier 1 / 2 / 255, at most 3 "
        "failures; dedge - initial == max, exact hits of the cap and one either side (125x2|63999,64000, 1x255|65024,65025,65026, ...) with failure runs of 2-11; dconn - "
        "connections of 20-60 / 20-120 elements with bursts of 3-9 consecutive non-terminal errors (mostly one and the same, every kind), payloads {0,1,2,3,2^32,2^63,u64::MAX}, "
        "InvalidSequence first / last / anywhere. "
        "A case is distinct by the SHA-1 of its op lines and non-trivial when the implementation's observation blocks differ at "
        "least once")
ASSUMPTIONS = [
    "list-level trace semantics of the combinators as in C12 (Model/Streams.lean): a run is what a consumer that keeps polling observes while the paused clock auto-advances; "
    "poll/wake scheduling, timer granularity and u64 overflow of the back-off product are not modelled",
    "the exchange is a script: MarketStream::init of the harness-local connector pops the next outcome; connect / subscribe / validate / snapshot fetching of a real connector "
    "(ExchangeWsStream::init) are not part of init_market_stream and not exercised here (C12W / C13S / C06E cover the offline parts)",
    "init_market_stream does NOT apply with_error_handler: non-terminal errors are items (Event::Item(Err(_))) of the returned stream; `mode handler` appends the documented "
    "consumer pattern of barter-data/src/lib.rs:84-86 to the returned stream",
    "terminal = DataError::is_terminal = InvalidSequence only; all eight DataError variants are modelled and scripted as stream errors (InvalidSequence, Socket, "
    "InitialSnapshotMissing, InitialSnapshotInvalid and — although the repository's own streams never yield them — Index, SubscriptionsEmpty, UnsupportedSubKind, Unsupported); "
    "payloads: a number rendered into the variant's string / id field, none for SubscriptionsEmpty, the SubKind (and mock | simulated) for the two Unsupported variants",
    "what ties the model's EXPRESSION to consumer.rs:72-79 (order of the combinators, the closure `|e| e.is_terminal()`, the policy and Exchange::ID passed on, a clone of the "
    "caller's subscriptions handed to every init) is the correspondence alone: the model was written as the C12 composition, the origin of a notice is a tag copied from the "
    "argument and the `ev att <t> <nsubs>` count is printed by the driver from its own state — no theorem can fail if the Rust expression changes, the harness run does "
    "(mutants C12I_no_termination / _origin_constant / _policy_ignored)",
    "the first init failing means init_market_stream returns Err (no stream exists); the property text's 're-initialisation' is read as attempts after the first success (as C12)",
    "tracing output (the info!/warn!/error! lines and the StreamKey in them) is not observed",
    "the virtual time of one run stays below 29 * 2^30 ms (tokio's paused-clock timer wheel panics beyond it under the harness's far-future timeout, see props/C12.py): waits beyond "
    "u32::MAX ms are generated with at most three failures; back-off values near u64::MAX are not generated",
]
SOURCE_FILES = ["barter-data/src/streams/consumer.rs", "barter-data/src/streams/reconnect/stream.rs", "barter-data/src/streams/reconnect/mod.rs",
                "barter-data/src/error.rs", "barter-data/src/lib.rs", "barter-data/src/exchange/mod.rs"]

_CLAUSE = {"ev": "trace(items_once_in_order/one_notice/errors_pass/backoff)", "evn": "trace-length", "fin": "never_ends"}


def signature(ops, k, key, impl_line, spec_line):
    """violated clause + consumption mode + what differs (which kind of trace line / only the time stamp)"""
    mode = "events"
    for line in ops[: k + 1]:
        t = line.split()
        if t and t[0] == "mode":
            mode = t[1]
    detail = ""
    if key == "ev":
        it, st = impl_line.split(), spec_line.split()
        if len(it) > 1 and len(st) > 1 and it[1] == st[1] and it[1] != "att" and it[:-1] == st[:-1]:
            detail = " time"
        elif len(it) > 1 and len(st) > 1 and it[1] == st[1] == "att" and it[2] != st[2] and it[3:] == st[3:]:
            detail = " att-time"
        elif len(it) > 1:
            detail = " " + it[1]
    if key == "fin" and "no-subscriptions" in (impl_line + spec_line):
        detail = " no-subscriptions"
    return f"clause={_CLAUSE.get(key, key)} mode={mode}{detail}"


CLAIM = False
TECHNIQUE = ("Lean 4: init_market_stream written as the source's expression over the C12 combinator model; proved equal to the C12 composition on the script classified by "
             "DataError::is_terminal, hence (run_events/handler_refines_spec instantiated) to the trace the property text prescribes; correspondence of the model with the REAL "
             "init_market_stream driven by a scripted harness-local exchange on a paused-clock tokio runtime")
LEVEL_TEXT = ("Proof (PARTIAL exactly as C12: list-level trace semantics). lean/BarterModel/Props/C12I.lean, for every exchange id, policy, number of subscriptions and script of "
              "init outcomes. RESULTS: refines_spec / handler_refines_spec (what init_market_stream returns = the trace of the C12 specification written from the property text, "
              "with and without the documented error handler; the script read with `terminal = InvalidSequence`, spelled out variant by variant over all eight DataError "
              "variants), terminal_iff_invalid_sequence + non_terminal_variants (is_terminal over ALL eight variants), terminal_error_ends_connection_not_stream (items before "
              "the first InvalidSequence, neither it nor anything after it, then exactly ONE Reconnecting notice, then the next connections; the stream has not ended), "
              "non_terminal_error_is_an_item (each of the seven other variants), delivered_is_segments, errors_go_to_handler, first_init_failure_is_an_error, "
              "never_ends_and_stable, default_policy_waits / _capped (125 ms x 2^n capped at 60 s), err_code_round_trip / err_code_injective (the printed error identity is "
              "faithful). DEFINITIONAL / BOOKKEEPING (true by the way the model is written; they carry no evidence about consumer.rs, the harness does): is_c12_composition (the "
              "model IS C12's runEvents on the script read through is_terminal — every Lean result above is therefore C12's, instantiated), origin_is_exchange (the origin is a "
              "tag copied from the argument), no_subscriptions_no_stream, default_policy_constants.")
LEVEL_NOTE = ("Trusted: as C12, plus the harness-local scripted Connector / MarketStream (they replace a live exchange; the function under test and every combinator are the "
              "repository's). The tie of the composition (combinator order, closure, policy, Exchange::ID as the origin of every notice, the subscription list handed to each "
              "init) to barter-data/src/streams/consumer.rs is the correspondence of the real function with the model, not a theorem. Self-test: mutants/C12I_*.patch (delete "
              ".with_termination_on_error, another origin, terminal closure |_| false / |_| true / Socket terminal / Unsupported terminal — the last one visible only since "
              "all eight variants are scripted —, policy ignored, default policy cap).")
